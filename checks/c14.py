"""C14 -- TSIG MACs follow RFC 8945; genuine messages verify, altered ones never do.

Engine: netsim-style two-party exchange.  One party is the real dnspython code
(Message.use_tsig/to_wire incl. multi, dns.message.from_wire with keyring /
request_mac / multi / tsig_ctx, dns.tsig.sign/validate, and the TSIG paths of
dns.query.udp/tcp/inbound_xfr); the other party is simkit.reftsig, an independent
hmac/hashlib implementation with its own wire walker.  Faults: verifier clock skew and
jumps, a corrupting channel (every single-bit flip, stripped/moved/duplicated TSIG),
identity faults (other secret/key name/algorithm/request MAC), envelope faults in
multi-message exchanges (drop, duplicate, reorder, flips inside unsigned envelopes).
"""

import copy
import struct

from simkit.core import EventLog, RunResult, Violation, sub_rng
from simkit import reftsig as T
from simkit.vtime import VT, OffsetView

PROP = "C14"
ENGINE = "netsim"
LEVEL = "exploration"
TIERS = {
    "quick": {"runs": 40000, "budget_s": 75},
    "thorough": {"runs": 400000, "budget_s": 1500},
}
DET_EVERY = 50
RULE = (
    "one run = one two-party TSIG exchange for a seeded (algorithm, key 1-80 octets, mixed-case key name, fudge, "
    "original id, other data, message) tuple: the real code signs and the independent peer verifies the MAC, and the "
    "peer signs and the real code verifies under a seeded clock skew; then one fault class is applied: all (thorough) "
    "or 250 sampled (quick) single-bit flips of the signed message, TSIG stripped/moved/duplicated, identity faults, or "
    "envelope faults in a 1-8 message multi-envelope stream with any subset of intermediates unsigned; non-trivial = at "
    "least one fault fired; distinct = distinct event-log digests"
)
STATE_MEASURE = "distinct (scenario, algorithm, fault kind, outcome class) tuples"
COMPONENTS_REAL = [
    "dns.message.Message.use_tsig / to_wire (single and multi, tsig_ctx) / make_response",
    "dns.message.from_wire(keyring, request_mac, multi, tsig_ctx) and _WireReader TSIG handling",
    "dns.tsig.sign / validate / _digest / HMACTSig / Key, dns.rdtypes.ANY.TSIG, dns.renderer TSIG writers",
    "network tier: dns.query.udp/tcp/inbound_xfr TSIG paths over netsim",
]
COMPONENTS_STUB = ["the peer (simkit.reftsig: independent RFC 8945 implementation)", "channel (bit flips, envelope faults)", "clocks of both parties (virtual)"]
EXPECTED_PROBES = [
    "mac_equal_reference",
    "reference_signed_verified",
    "skew_exactly_at_fudge",
    "skew_beyond_fudge_badtime",
    "flip_in_exempt_position",
    "flips_rejected",
    "two_consecutive_unsigned_envelopes",
    "envelope_fault_detected",
    "identity_fault_rejected",
    "tsig_not_last_formerr",
    "real_multi_sign_verified_by_reference",
    "renderer_api_signed_verified_by_reference",
    "net_tampered_reply_not_returned",
    "xfr_tsig_stream_ok",
]

_d = None
ALGS = list(T.ALGS.keys())
_TSIGCLOCK = OffsetView(VT, 0.0)
_FIXED_ID = [0x1234]


def _set_clock(t):
    """Both parties' wall clock reads t now; the simulation clock restarts at 1000.0."""
    VT.reset(1000.0)
    _TSIGCLOCK.offset = float(t) - 1000.0


def _worlds():
    """sync code, async twins on asyncio, async twins on trio (when trio is installed)."""
    from simkit import netsim

    if netsim.have_trio():
        netsim.install_trio_seam()
        return ("sync", "async", "trio")
    return ("sync", "async")


def setup():
    global _d
    import dns
    import dns.message
    import dns.tsig
    import dns.rrset
    import dns.renderer
    import dns.query
    import dns.asyncquery
    import dns.name
    import dns.flags
    import dns.rcode

    _d = dns
    for mod in (dns.query, dns.asyncquery):
        mod.time = VT
    dns.renderer.time = _TSIGCLOCK  # Renderer.add_tsig / add_multi_tsig read the wall clock themselves
    # message ids the library draws for itself come from the case, not from the OS
    import dns.entropy

    dns.entropy.random_16 = lambda: _FIXED_ID[0]
    # the TSIG clock: dns.message reads simulated time plus an epoch offset set per step
    dns.message.time = _TSIGCLOCK
    _set_clock(1_600_000_000.0)
    q = dns.message.make_query("a.example.", "A")
    key = dns.tsig.Key("k.", b"0123456789abcdef", "hmac-sha256.")
    q.use_tsig(key)
    w = q.to_wire()
    _, f = T.split_tsig(w)
    if f is None or f["time"] != 1_600_000_000:
        from simkit.core import HarnessError

        raise HarnessError("seam dns.message.time (TSIG time signed)")


# ---------------------------------------------------------------------------


def gen_case(seed, tier):
    rng = sub_rng(seed, "workload")
    alg = rng.choice(ALGS)
    keylen = rng.choice([0, 1, 8, 16, 32, 64, 65, 80])
    case = {
        "prop": PROP,
        "seed": seed,
        "alg": alg,
        "secret": bytes(rng.randrange(256) for _ in range(keylen)).hex(),
        "keyname": rng.choice(["key.example.", "Key.Example.", "K1.", "tsig-key.some.zone.example.", "UPPER.CASE.KEY."]),
        "alg_spelling": rng.choice(["lower", "lower", "upper", "mixed"]),
        "key_spelling": rng.choice(["same", "same", "upper", "lower"]),
        "fudge": rng.choice([0, 1, 300, 300, 65535]),
        "time": rng.choice([1_600_000_000, 2**31 + 5, 2**32 + 77, 2**40 + 3, 100000]),
        "qid": rng.randrange(65536),
        "orig_id_differs": rng.random() < 0.2,
        "other": rng.choice(["", "", "", "0011", "000000000001"]),
        "nrr": rng.choice([0, 1, 2, 4]),
        "edns": rng.random() < 0.3,
        "qname": rng.choice(["www.example.", "a.b.c.example.org.", "MiXeD.example."]),
        "scenario": rng.choice(["single", "single", "single", "identity", "structure", "multi", "multi", "real_multi", "net", "xfr", "renderer"]),
        "skew": rng.choice(["0", "0", "+fudge", "-fudge", "+fudge+1", "-fudge-1", "big"]),
        "flips": "all" if tier == "thorough" and rng.random() < 0.3 else 250,
        "identity": rng.choice(["secret", "keyname_keyring", "keyname_key", "algorithm", "request_mac", "no_request_mac", "tsig_error"]),
        "structure": rng.choice(["stripped", "not_last", "duplicated", "ttl", "class", "mac_prefix", "mac_prefix", "mac_extended"]),
        "nenv": rng.choice([1, 2, 3, 5, 8]),
        "unsigned_mask": rng.randrange(256),
        "envfault": rng.choice(["none", "none", "drop", "dup", "reorder", "flip_unsigned", "flip_signed", "jump_clock", "last_unsigned"]),
        "envpos": rng.randrange(8),
        "flipbit": rng.randrange(100000),
        "ring_form": rng.choice(["key", "key", "dict", "dict_origin", "dict_origin", "callable", "dict_bytes", "dict_bytes"]),
    }
    return case


def _key(case, real=True):
    """The real side's key object; its names may be spelled in another case than what the
    peer puts on the wire (names are case-insensitive and digested in canonical form)."""
    dns = _d
    alg = case["alg"]
    sp = case.get("alg_spelling", "lower")
    if sp == "upper":
        alg = alg.upper()
    elif sp == "mixed":
        alg = "".join(c.upper() if i % 2 else c for i, c in enumerate(alg))
    kn = case["keyname"]
    ks = case.get("key_spelling", "same")
    if ks == "upper":
        kn = kn.upper()
    elif ks == "lower":
        kn = kn.lower()
    return dns.tsig.Key(kn, bytes.fromhex(case["secret"]), alg)


def _query(case):
    dns = _d
    q = dns.message.make_query(case["qname"], "A", use_edns=0 if case["edns"] else None)
    q.id = case["qid"]
    return q


def _response_wire(case, q, n=0, extra=0):
    """Unsigned response wire rendered by the real codec."""
    dns = _d
    r = dns.message.make_response(q)
    for i in range(case["nrr"] + extra):
        r.answer.append(dns.rrset.from_text(q.question[0].name, 300, "IN", "A", f"10.{n}.{i}.1"))
    r.keyring = None
    r.tsig = None
    return r.to_wire()


def _verifier_now(case, time_signed):
    f = case["fudge"]
    s = case["skew"]
    if s == "0":
        return time_signed, True
    if s == "+fudge":
        return time_signed + f, True
    if s == "-fudge":
        return time_signed - f, True
    if s == "+fudge+1":
        return time_signed + f + 1, False
    if s == "-fudge-1":
        return time_signed - f - 1, False
    return time_signed + 10 * (f + 1) + 1000, False


_RING_FORM = ["key"]
_BARE_RING = {}


def _real_verify(wire, key_or_ring, request_mac=b"", multi=False, ctx=None):
    """Returns ('ok', message) | ('exc', class name, exception).
    The key is handed over in the form the case names: the Key itself, a {name: key} dict, such a dict
    while the message is parsed relative to an origin the key name lies under (what the zone
    transfer code does), or a callable."""
    dns = _d
    kw = {}
    form = _RING_FORM[0]
    if isinstance(key_or_ring, dns.tsig.Key) and form != "key":
        k = key_or_ring
        if form == "callable":
            key_or_ring = lambda message, keyname, _k=k: _k if keyname == _k.name else None  # noqa: E731
        elif form == "dict_bytes":
            # the classic keyring: name -> bare secret (what dns.tsigkeyring.from_text gives); the
            # algorithm is then whatever the TSIG record names
            # (one dict for the whole case, as an application would keep it; the library must not alter it)
            _BARE_RING.setdefault(k.name, k.secret)
            key_or_ring = _BARE_RING
        else:
            key_or_ring = {k.name: k}
            if form == "dict_origin" and len(k.name) > 2:
                kw["origin"] = k.name.parent()
    try:
        m = dns.message.from_wire(wire, keyring=key_or_ring, request_mac=request_mac, multi=multi, tsig_ctx=ctx, **kw)
        return ("ok", m)
    except Exception as e:  # noqa: BLE001
        return ("exc", type(e).__name__, e)


def _exempt_bits(wire):
    """Bit positions whose flip may legitimately still verify: the 16 header-id bits (the MAC
    covers the original id) and the 0x20 bit of ASCII letters in the TSIG owner and algorithm
    names (names are compared and digested in canonical form)."""
    ex = set(range(16))
    stripped, f = T.split_tsig(wire)
    if f is None:
        return ex

    def name_bits(pos):
        p = pos
        while True:
            c = wire[p]
            if c == 0 or c & 0xC0:
                break
            for i in range(p + 1, p + 1 + c):
                if chr(wire[i]).isalpha() and wire[i] < 128:
                    ex.add(i * 8 + 2)  # bit 0x20 of byte i (bit index 2 counting from the MSB)
            p += 1 + c

    name_bits(f["start"])
    name_bits(f["rdata_start"])
    return ex


def _flip(wire, bit):
    b = bytearray(wire)
    b[bit // 8] ^= 0x80 >> (bit % 8)
    return bytes(b)


def _accepts(res):
    return res[0] == "ok" and res[1].had_tsig


# ---------------------------------------------------------------------------
# scenarios


def _scenario_single(case, res, log):
    dns = _d
    key = _key(case)
    secret = bytes.fromhex(case["secret"])
    alg, kn = case["alg"], case["keyname"]
    tag = f"alg={alg} key={len(secret)}B fudge={case['fudge']} time={case['time']}"
    _set_clock(case["time"])
    q = _query(case)
    orig_id = (case["qid"] + 1) % 65536 if case["orig_id_differs"] else None
    other = bytes.fromhex(case["other"])
    q_unsigned = q.to_wire()
    q.use_tsig(key, fudge=case["fudge"], original_id=orig_id, other_data=other)
    qwire = q.to_wire()
    # (1) the MAC the real code computed equals the RFC 8945 HMAC
    ok, why, f = T.verify_single(secret, kn, alg, qwire)
    if not ok:
        raise Violation("C14:mac-differs-from-rfc", f"request {tag}: {why}")
    if f["time"] != case["time"] or f["fudge"] != case["fudge"] or f["other"] != other:
        raise Violation("C14:tsig-fields", f"request {tag}: time/fudge/other written {f['time']}/{f['fudge']}/{f['other'].hex()}")
    if q.mac != f["mac"]:
        raise Violation("C14:tsig-fields", f"request {tag}: Message.mac differs from the MAC on the wire")
    res.probes.inc("mac_equal_reference")
    # the real code verifies its own signature
    r0 = _real_verify(qwire, key)
    if not _accepts(r0):
        raise Violation("C14:own-signature-rejected", f"request {tag}: the library does not validate a message it signed itself: {r0[1:2]}")
    # (1b) the same message object rendered again later is signed again, at the time of that rendering
    later = case["time"] + case["fudge"] + 100
    _set_clock(later)
    qwire_again = q.to_wire()
    ok2, why2, f_again = T.verify_single(secret, kn, alg, qwire_again)
    if not ok2:
        raise Violation("C14:mac-differs-from-rfc", f"request rendered a second time {tag}: {why2}")
    if f_again["time"] != later:
        raise Violation("C14:tsig-fields", f"request {tag} rendered again at {later}: time signed is {f_again['time']} (the first rendering was at {case['time']}, fudge {case['fudge']})")
    r_again = _real_verify(qwire_again, key)
    if not _accepts(r_again):
        raise Violation("C14:own-signature-rejected", f"request {tag} rendered again at {later}: the library rejects it at that time: {r_again[1:2]}")
    _set_clock(case["time"])
    q.to_wire()  # (restore: q.mac is the MAC of the rendering at case time again)
    if q.mac != f["mac"]:
        raise Violation("C14:tsig-fields", f"request {tag}: rendering the same message again at the same time gives another MAC")
    # (1c) a peer using the same key under another algorithm: with a key ring of bare secrets the
    # algorithm is the record's, and the ring the application handed in stays as it was
    if _RING_FORM[0] == "dict_bytes":
        alg2 = [a for a in ALGS if a != alg][case["flipbit"] % (len(ALGS) - 1)]
        for a_ in (alg2, alg):
            w2, _m2 = T.sign_single(secret, kn, a_, q_unsigned, case["time"], case["fudge"])
            r2 = _real_verify(w2, key)
            if not _accepts(r2):
                raise Violation("C14:genuine-rejected", f"{tag}: with a ring of bare secrets a message signed with {a_} is rejected ({r2[1]}) after one signed with another algorithm was read with the same ring")
        if any(not isinstance(v, bytes) for v in _BARE_RING.values()):
            raise Violation("C14:keyring-altered", f"{tag}: reading a message replaced a bare secret in the caller's key ring by {[type(v).__name__ for v in _BARE_RING.values()]}")
        res.probes.inc("bare_secret_ring_two_algorithms")
    # (2) the peer signs a response bound to the request MAC; the real code verifies under skew
    rw = _response_wire(case, q)
    t_signed = case["time"] + 3
    signed, rmac = T.sign_single(secret, kn, alg, rw, t_signed, case["fudge"], request_mac=f["mac"])
    now, in_window = _verifier_now(case, t_signed)
    _set_clock(float(now) + 0.5)  # the verifier truncates to whole seconds
    r1 = _real_verify(signed, key, request_mac=q.mac)
    if in_window:
        if not _accepts(r1):
            raise Violation("C14:genuine-rejected", f"response {tag} skew={case['skew']}: genuine RFC 8945 response rejected: {r1[1:2]}")
        res.probes.inc("reference_signed_verified")
        if case["skew"] in ("+fudge", "-fudge") and case["fudge"] > 0:
            res.probes.inc("skew_exactly_at_fudge")
    else:
        res.faults.inc("clock_skew_beyond_fudge")
        if _accepts(r1):
            raise Violation("C14:outside-fudge-accepted", f"response {tag} skew={case['skew']}: signing time {t_signed} verified at {now} with fudge {case['fudge']}")
        if r1[1] != "BadTime":
            raise Violation("C14:wrong-exception", f"response {tag} skew={case['skew']}: {r1[1]} instead of BadTime")
        res.probes.inc("skew_beyond_fudge_badtime")
        log.add("single", alg, "skew", r1[1])
        return
    # (3) real server side: make_response + use_tsig is bound to the request MAC
    _set_clock(case["time"])
    qparsed = dns.message.from_wire(qwire, keyring=key)
    resp = dns.message.make_response(qparsed)
    resp.answer.append(dns.rrset.from_text(qparsed.question[0].name, 60, "IN", "A", "10.7.7.7"))
    rwire2 = resp.to_wire()
    ok, why, f2 = T.verify_single(secret, kn, alg, rwire2, request_mac=f["mac"])
    if not ok:
        raise Violation("C14:mac-differs-from-rfc", f"response signed by the library {tag}: {why}")
    # (3a) a response reporting a TSIG error (BADTIME 18, BADTRUNC 22, ...) is a signed response like any other
    # (RFC 8945 5.3.2): request MAC, message, variables with the error code
    terr = (18, 22, 16, 17)[case["flipbit"] % 4]
    eresp = dns.message.make_response(qparsed, tsig_error=terr)
    ewire = eresp.to_wire()
    ok, why, f2e = T.verify_single(secret, kn, alg, ewire, request_mac=f["mac"])
    if not ok:
        raise Violation("C14:mac-differs-from-rfc", f"response reporting TSIG error {terr}, signed by the library {tag}: {why}")
    if f2e["error"] != terr:
        raise Violation("C14:tsig-fields", f"make_response(tsig_error={terr}) {tag}: the TSIG record carries error {f2e['error']}")
    res.probes.inc("error_response_mac_bound_to_request")
    # (3b) a signed response that does not fit: with prefer_truncation the library sets TC and drops
    # records; the MAC must be the one of the message as sent
    big = dns.message.make_response(qparsed)
    for i in range(70):
        big.answer.append(dns.rrset.from_text(f"r{i}." + qparsed.question[0].name.to_text(), 60, "IN", "A", f"10.7.{i}.7"))
    bw = big.to_wire(max_size=512, prefer_truncation=True)
    if len(bw) > 512 or not (bw[2] & 0x02):
        raise Violation("C14:tsig-fields", f"truncated signed response {tag}: {len(bw)} octets, TC {'set' if bw[2] & 0x02 else 'clear'}")
    ok, why, _f3 = T.verify_single(secret, kn, alg, bw, request_mac=f["mac"])
    if not ok:
        raise Violation("C14:mac-differs-from-rfc", f"truncated (TC) response signed by the library {tag}: {why}")
    r3 = _real_verify(bw, key, request_mac=q.mac)
    if not _accepts(r3):
        raise Violation("C14:own-signature-rejected", f"truncated (TC) response {tag}: the library does not validate what it signed: {r3[1:2]}")
    res.probes.inc("signed_truncated_response")
    # (4) the corrupting channel: single-bit flips of the peer-signed response
    _set_clock(float(t_signed) + 0.5)
    exempt = _exempt_bits(signed)
    nbits = len(signed) * 8
    if case["flips"] == "all":
        bits = range(nbits)
    else:
        rng = sub_rng(case["seed"], "flips")
        bits = sorted(set(rng.randrange(nbits) for _ in range(case["flips"])))
        # always include the TSIG record's fixed fields
        _, ff = T.split_tsig(signed)
        hdr = ff["rdata_start"] - 10
        bits = sorted(set(bits) | set(range(hdr * 8, (hdr + 10) * 8)))
    if case.get("only_bits") is not None:
        bits = case["only_bits"]
    rejected = 0
    for bit in bits:
        r = _real_verify(_flip(signed, bit), key, request_mac=q.mac)
        if _accepts(r):
            if bit in exempt:
                res.probes.inc("flip_in_exempt_position")
                continue
            _, ff = T.split_tsig(signed)
            where = "message body"
            if bit // 8 >= ff["start"]:
                off = bit // 8 - (ff["rdata_start"] - 10)
                where = f"TSIG RR fixed part byte {off} (0-1 type, 2-3 class, 4-7 TTL, 8-9 rdlen)" if 0 <= off < 10 else f"TSIG RR byte {bit // 8 - ff['start']}"
            raise Violation(
                "C14:altered-message-verified",
                f"{tag}: flipping bit {bit} ({where}) of a signed response still verifies (had_tsig, no exception)",
            )
        rejected += 1
    res.probes.inc("flips_rejected", rejected)
    res.faults.inc("bit_flip", len(bits))
    # (5) the application replaces the secret of its long-lived key object: from then on the new secret signs
    # and verifies, the retired one does not
    new_secret = bytes((b2 + 1) % 256 for b2 in secret) + b"\x5a"
    key.secret = new_secret
    if key.name in _BARE_RING:
        _BARE_RING[key.name] = new_secret  # (the application's ring of bare secrets is updated as well)
    _set_clock(case["time"])
    q5 = _query(case)
    q5.use_tsig(key, fudge=case["fudge"])
    w5 = q5.to_wire()
    ok5, why5, _f5 = T.verify_single(new_secret, kn, alg, w5)
    if not ok5:
        raise Violation("C14:mac-differs-from-rfc", f"{tag}: after key.secret was replaced the library does not sign with the new secret: {why5}")
    old_signed, _m5 = T.sign_single(secret, kn, alg, _response_wire(case, q5), case["time"], case["fudge"], request_mac=q5.mac)
    r5 = _real_verify(old_signed, key, request_mac=q5.mac)
    if _accepts(r5):
        raise Violation("C14:wrong-identity-verified", f"{tag}: a message signed with the retired secret verifies after key.secret was replaced")
    res.probes.inc("secret_replaced_in_place")
    log.add("single", alg, len(signed), rejected)


def _scenario_identity(case, res, log):
    dns = _d
    key = _key(case)
    secret = bytes.fromhex(case["secret"])
    alg, kn = case["alg"], case["keyname"]
    _set_clock(case["time"])
    q = _query(case)
    q.use_tsig(key, fudge=case["fudge"])
    qwire = q.to_wire()
    _, f = T.split_tsig(qwire)
    rw = _response_wire(case, q)
    t_signed = case["time"]
    kind = case["identity"]
    tag = f"identity fault {kind} alg={alg}"
    req_mac = f["mac"]
    vkey = key
    want = None
    if kind == "secret":
        signed, _ = T.sign_single(bytes(b ^ 0x01 for b in secret) or b"\x01", kn, alg, rw, t_signed, case["fudge"], request_mac=req_mac)
        want = {"BadSignature"}
    elif kind == "keyname_keyring":
        signed, _ = T.sign_single(secret, "other." + kn, alg, rw, t_signed, case["fudge"], request_mac=req_mac)
        vkey = {key.name: key}
        want = {"UnknownTSIGKey"}
    elif kind == "keyname_key":
        signed, _ = T.sign_single(secret, "other." + kn, alg, rw, t_signed, case["fudge"], request_mac=req_mac)
        # a Key object is compared with the TSIG owner (BadKey); a ring or a callable does not find it
        want = {"BadKey"} if _RING_FORM[0] == "key" else {"UnknownTSIGKey"}
    elif kind == "algorithm":
        other_alg = [a for a in ALGS if a != alg][case["flipbit"] % (len(ALGS) - 1)]
        signed, _ = T.sign_single(secret, kn, other_alg, rw, t_signed, case["fudge"], request_mac=req_mac)
        want = {"BadAlgorithm"}
        if _RING_FORM[0] == "dict_bytes":
            # a bare secret names no algorithm: a message signed with that secret under another
            # algorithm is genuinely signed
            res.probes.inc("bare_secret_keyring_any_algorithm")
            log.add("identity", "algorithm", "bare-secret")
            return
    elif kind == "request_mac":
        signed, _ = T.sign_single(secret, kn, alg, rw, t_signed, case["fudge"], request_mac=bytes(b ^ 0xFF for b in req_mac))
        want = {"BadSignature"}
    elif kind == "no_request_mac":
        signed, _ = T.sign_single(secret, kn, alg, rw, t_signed, case["fudge"], request_mac=None)
        want = {"BadSignature"}
    else:
        err = [16, 17, 18, 22, 23, 1, 9, 15, 4095][case["flipbit"] % 9]
        signed, _ = T.sign_single(secret, kn, alg, rw, t_signed, case["fudge"], request_mac=req_mac, error=err)
        # any non-zero TSIG error is the peer reporting a failure, whatever its number
        want = {16: {"PeerBadSignature"}, 17: {"PeerBadKey"}, 18: {"PeerBadTime"}, 22: {"PeerBadTruncation"}}.get(err, {"PeerError"})
    r = _real_verify(signed, vkey, request_mac=q.mac)
    res.faults.inc("identity_" + kind)
    if _accepts(r):
        raise Violation("C14:wrong-identity-verified", f"{tag}: message verified")
    if r[0] == "ok":
        raise Violation("C14:wrong-identity-verified", f"{tag}: no exception (had_tsig={r[1].had_tsig})")
    if r[1] not in want:
        raise Violation("C14:wrong-exception", f"{tag}: {r[1]} instead of {sorted(want)}")
    res.probes.inc("identity_fault_rejected")
    log.add("identity", kind, r[1])


def _scenario_structure(case, res, log):
    dns = _d
    key = _key(case)
    secret = bytes.fromhex(case["secret"])
    alg, kn = case["alg"], case["keyname"]
    _set_clock(case["time"])
    q = _query(case)
    q.use_tsig(key, fudge=case["fudge"])
    qwire = q.to_wire()
    _, f = T.split_tsig(qwire)
    rw = _response_wire(case, q)
    signed, mac = T.sign_single(secret, kn, alg, rw, case["time"], case["fudge"], request_mac=f["mac"])
    _, sf = T.split_tsig(signed)
    kind = case["structure"]
    tag = f"structure fault {kind} alg={alg}"
    rr = signed[sf["start"] :]
    if kind == "stripped":
        w = rw
    elif kind == "not_last":
        # TSIG followed by another additional record
        extra = T.name_to_wire("x.example.") + struct.pack("!HHIH", 1, 1, 60, 4) + bytes([10, 0, 0, 9])
        ar = struct.unpack("!H", signed[10:12])[0]
        w = signed[:10] + struct.pack("!H", ar + 1) + signed[12:] + extra
    elif kind == "duplicated":
        ar = struct.unpack("!H", signed[10:12])[0]
        w = signed[:10] + struct.pack("!H", ar + 1) + signed[12:] + rr
    elif kind == "ttl":
        b = bytearray(signed)
        off = sf["rdata_start"] - 6
        b[off : off + 4] = struct.pack("!I", [1, 300, 2**31, 2**32 - 1][case["flipbit"] % 4])
        w = bytes(b)
    elif kind in ("mac_prefix", "mac_extended"):
        # a forger who cannot compute the MAC sends a re-encoded TSIG RR whose MAC is only a
        # prefix of (or longer than) the genuine one, on a message that may also be altered
        full = sf["mac"]
        if kind == "mac_prefix":
            k = [0, 1, 4, len(full) // 2, len(full) - 1][case["flipbit"] % 5]
            newmac = full[:k]
        else:
            newmac = full + b"\x00"
        body = rw
        if case["envpos"] % 2:
            body = _flip(rw, 16 + case["flipbit"] % ((len(rw) - 2) * 8))
        w = T.append_tsig(body, T.tsig_rr(kn, alg, case["time"], case["fudge"], newmac, sf["orig_id"]))
    else:
        b = bytearray(signed)
        off = sf["rdata_start"] - 8
        b[off : off + 2] = struct.pack("!H", 1)
        w = bytes(b)
    r = _real_verify(w, key, request_mac=q.mac)
    res.faults.inc("structure_" + kind)
    if _accepts(r):
        raise Violation("C14:altered-message-verified", f"{tag}: message verified (had_tsig, no exception)")
    if kind == "stripped":
        if r[0] != "ok" or r[1].had_tsig:
            raise Violation("C14:wrong-exception", f"{tag}: {r[1:2]}")
    elif kind in ("not_last", "duplicated", "class"):
        if r[0] != "exc" or not isinstance(r[2], dns.exception.FormError):
            raise Violation("C14:wrong-exception", f"{tag}: expected a format error, got {r[1:2]}")
        res.probes.inc("tsig_not_last_formerr")
    else:
        if r[0] != "exc":
            raise Violation("C14:altered-message-verified", f"{tag}: no exception")
    log.add("structure", kind, r[1] if r[0] == "exc" else "ok")


def _sign_stream(case, secret, kn, alg, req_mac, wires, signed_flags, t0):
    """The peer signs a multi-envelope response stream (RFC 8945 5.3.1)."""
    out = []
    prior = None
    pending = []
    for i, (w, s) in enumerate(zip(wires, signed_flags)):
        t = t0 + i
        if not s:
            out.append(w)
            pending.append(w)
            continue
        oid = struct.unpack("!H", w[:2])[0]
        if prior is None:
            mac = T.mac_single(secret, kn, alg, w, oid, t, case["fudge"], 0, b"", req_mac)
        else:
            mac = T.mac_subsequent(secret, alg, prior, pending, w, oid, t, case["fudge"])
        signed = T.append_tsig(w, T.tsig_rr(kn, alg, t, case["fudge"], mac, oid))
        if case.get("orig_id_differs"):
            # a forwarder rewrote the header id of the signed envelopes: the TSIG original id is what was signed
            signed = struct.pack("!H", (oid + 0x0101) & 0xFFFF) + signed[2:]
        out.append(signed)
        prior = mac
        pending = []
    return out


def _scenario_multi(case, res, log):
    dns = _d
    key = _key(case)
    secret = bytes.fromhex(case["secret"])
    alg, kn = case["alg"], case["keyname"]
    _set_clock(case["time"])
    q = _query(case)
    q.use_tsig(key, fudge=max(case["fudge"], 20))
    qwire = q.to_wire()
    _, f = T.split_tsig(qwire)
    n = case["nenv"]
    wires = [_response_wire(case, q, n=i, extra=i % 2) for i in range(n)]
    flags = [True] + [not (case["unsigned_mask"] >> i) & 1 for i in range(1, n - 1)] + ([True] if n > 1 else [])
    flags = flags[:n]
    fault = case["envfault"]
    if fault == "last_unsigned" and n > 1:
        flags[-1] = False
    c2 = dict(case)
    c2["fudge"] = max(case["fudge"], 20)
    stream = _sign_stream(c2, secret, kn, alg, f["mac"], wires, flags, case["time"])
    if any((not a) and (not b) for a, b in zip(flags, flags[1:])):
        res.probes.inc("two_consecutive_unsigned_envelopes")
    pos = case["envpos"] % n
    fired = None
    if fault == "drop" and n > 1 and not (pos == n - 1 and flags[n - 2]):
        # (dropping the tail so that the stream still ends with a signed envelope is not
        # detectable by TSIG; the transfer layer notices the missing final SOA instead)
        del stream[pos]
        sent_flags = flags[:pos] + flags[pos + 1 :]
        fired = "drop"
    elif fault == "dup":
        stream.insert(pos, stream[pos])
        sent_flags = flags[:pos] + [flags[pos]] + flags[pos:]
        fired = "dup"
    elif fault == "reorder" and n > 1:
        p2 = (pos + 1) % n
        stream[pos], stream[p2] = stream[p2], stream[pos]
        sent_flags = list(flags)
        sent_flags[pos], sent_flags[p2] = sent_flags[p2], sent_flags[pos]
        fired = "reorder" if stream[pos] != stream[p2] else None
    elif fault in ("flip_unsigned", "flip_signed"):
        want_signed = fault == "flip_signed"
        idx = [i for i, s in enumerate(flags) if s == want_signed]
        sent_flags = list(flags)
        if idx:
            i = idx[pos % len(idx)]
            body_bits = (len(wires[i]) - 2) * 8
            bit = 16 + case["flipbit"] % body_bits  # not the id, inside the message proper
            stream[i] = _flip(stream[i], bit)
            fired = fault
    else:
        sent_flags = list(flags)
        if fault == "last_unsigned" and n > 1:
            fired = "last_unsigned"
    jump = fault == "jump_clock"
    # the real code verifies the stream the way _inbound_xfr does
    ctx = None
    failure = None
    last_had = False
    detected_at = None
    for i, w in enumerate(stream):
        _set_clock(float(case["time"] + i) + (100000.0 if (jump and i == len(stream) - 1 and n > 1) else 0.0))
        r = _real_verify(w, key, request_mac=q.mac, multi=True, ctx=ctx)
        if r[0] == "exc":
            failure = r
            detected_at = i
            break
        ctx = r[1].tsig_ctx
        last_had = r[1].had_tsig
    accepted = failure is None and last_had
    tag = f"multi alg={alg} n={n} signed={''.join('S' if s else 'u' for s in flags)} fault={fired or ('jump_clock' if jump else None)}@{pos}"
    if fired is None and not jump:
        if not accepted:
            raise Violation("C14:genuine-rejected", f"{tag}: genuine multi-envelope stream rejected: {failure[1] if failure else 'last envelope had no TSIG'}")
        res.probes.inc("reference_signed_verified")
        # a stand-alone message read with multi=False is a first message whatever context is passed along
        alone, _ma = T.sign_single(secret, kn, alg, wires[0], case["time"], c2["fudge"], request_mac=f["mac"])
        _set_clock(float(case["time"]))
        ra = _real_verify(alone, key, request_mac=q.mac, multi=False, ctx=ctx)
        if not _accepts(ra):
            raise Violation("C14:genuine-rejected", f"{tag}: a genuine stand-alone response read with multi=False and the context of an earlier stream is rejected: {ra[1]}")
        res.probes.inc("standalone_with_stale_context")
    else:
        res.faults.inc("envelope_" + (fired or "jump_clock"))
        if jump and n == 1:
            pass
        elif accepted:
            raise Violation("C14:altered-stream-verified", f"{tag}: the altered envelope stream verified to the end")
        else:
            res.probes.inc("envelope_fault_detected")
            if jump and failure is not None and failure[1] != "BadTime":
                raise Violation("C14:wrong-exception", f"{tag}: {failure[1]} instead of BadTime")
    log.add("multi", alg, n, fired, "acc" if accepted else "rej")


def _scenario_real_multi(case, res, log):
    """The real code signs a multi-envelope stream; the peer verifies every MAC."""
    dns = _d
    key = _key(case)
    secret = bytes.fromhex(case["secret"])
    alg, kn = case["alg"], case["keyname"]
    _set_clock(case["time"])
    q = _query(case)
    q.use_tsig(key, fudge=case["fudge"])
    qwire = q.to_wire()
    _, f = T.split_tsig(qwire)
    qparsed = dns.message.from_wire(qwire, keyring=key)
    n = case["nenv"]
    ctx = None
    prior = None
    tag = f"real multi-sign alg={alg} n={n}"
    for i in range(n):
        _set_clock(float(case["time"] + i))
        m = dns.message.make_response(qparsed)
        m.answer.append(dns.rrset.from_text(qparsed.question[0].name, 60, "IN", "A", f"10.3.{i}.1"))
        if case.get("orig_id_differs"):
            # the documented original_id option: sign for another id than the header carries
            m.use_tsig(key, fudge=case["fudge"], original_id=(m.id + 0x0101) & 0xFFFF, algorithm=key.algorithm)
        w = m.to_wire(multi=True, tsig_ctx=ctx)
        ctx = m.tsig_ctx
        stripped, ff = T.split_tsig(w)
        if ff is None:
            raise Violation("C14:tsig-fields", f"{tag}: envelope {i} carries no TSIG")
        if case.get("orig_id_differs") and ff["orig_id"] != (m.id + 0x0101) & 0xFFFF:
            raise Violation("C14:tsig-fields", f"{tag}: envelope {i} carries original id {ff['orig_id']}, use_tsig(original_id=) asked for {(m.id + 0x0101) & 0xFFFF}")
        if i == 0:
            want = T.mac_single(secret, kn, alg, stripped, ff["orig_id"], ff["time"], ff["fudge"], ff["error"], ff["other"], f["mac"])
        else:
            want = T.mac_subsequent(secret, alg, prior, [], stripped, ff["orig_id"], ff["time"], ff["fudge"])
        if want != ff["mac"]:
            raise Violation("C14:mac-differs-from-rfc", f"{tag}: envelope {i} MAC differs from the RFC 8945 HMAC ({'first' if i == 0 else 'subsequent: prior MAC + message + timers'})")
        if i == 0:
            # a second attempt at the first envelope with the same message object (tsig_ctx=None): it
            # is a first envelope again, not a continuation of its own earlier rendering
            w2 = m.to_wire(multi=True, tsig_ctx=None)
            s2, f2 = T.split_tsig(w2)
            if f2 is None or f2["mac"] != T.mac_single(secret, kn, alg, s2, f2["orig_id"], f2["time"], f2["fudge"], f2["error"], f2["other"], f["mac"]):
                raise Violation("C14:mac-differs-from-rfc", f"{tag}: the first envelope rendered a second time from the same message object (tsig_ctx=None) is not signed as a first envelope")
            ctx = m.tsig_ctx
        prior = ff["mac"]
    res.probes.inc("real_multi_sign_verified_by_reference")
    res.probes.inc("mac_equal_reference")
    log.add("real_multi", alg, n)


def _scenario_net(case, res, log):
    """TSIG through dns.query.udp / tcp over the simulated network: a tampered reply is never returned."""
    dns = _d
    import socket

    from simkit import netsim

    dns.query.socket_factory = netsim.fake_socket_factory
    dns.query._wait_for = netsim.pump
    key = _key(case)
    secret = bytes.fromhex(case["secret"])
    alg, kn = case["alg"], case["keyname"]
    tamper = case["envfault"] in ("flip_signed", "flip_unsigned", "drop")
    use_tcp = case["nenv"] % 2 == 0
    ignore_errors = case["edns"] and not use_tcp
    outs = {}
    for world in _worlds():
        net = netsim.reset_network()
        _set_clock(case["time"])
        q = _query(case)
        q.use_tsig(key, fudge=max(case["fudge"], 5))
        qwire = q.to_wire()
        _, f = T.split_tsig(qwire)
        rw = _response_wire(case, q)
        signed, _ = T.sign_single(secret, kn, alg, rw, case["time"], max(case["fudge"], 5), request_mac=f["mac"])
        good = signed
        if tamper:
            bit = 16 + case["flipbit"] % ((len(rw) - 2) * 8)
            signed = _flip(signed, bit)
        src = ("10.0.0.1", 53)
        if use_tcp:
            frame = len(signed).to_bytes(2, "big") + signed
            net.tcp_scripts["*"] = netsim.TcpScript(connect=("ok", 0.0), rx=[(0.01, frame[:7]), (0.02, frame[7:])], rx_after_request=True)
        else:
            net.udp_scripts["*"] = netsim.UdpScript([(0.01, signed, src)] + ([(0.3, good, src)] if case["nrr"] % 2 else []))
        try:
            if world == "sync":
                if use_tcp:
                    r = dns.query.tcp(q, "10.0.0.1", timeout=2.0)
                else:
                    r = dns.query.udp(q, "10.0.0.1", timeout=2.0, ignore_errors=ignore_errors)
            else:
                import dns.asyncbackend

                backend = dns.asyncbackend.get_backend("trio" if world == "trio" else "asyncio")

                async def go():
                    if use_tcp:
                        return await dns.asyncquery.tcp(q, "10.0.0.1", timeout=2.0, backend=backend)
                    return await dns.asyncquery.udp(q, "10.0.0.1", timeout=2.0, ignore_errors=ignore_errors, backend=backend)

                r, exc = (netsim.run_trio if world == "trio" else netsim.run_async)(go, net)
                if exc is not None:
                    raise exc
            out = ("ok", r)
        except Exception as e:  # noqa: BLE001
            out = ("exc", type(e).__name__)
        tag = f"[{world}] net {'tcp' if use_tcp else 'udp'} tamper={tamper} ignore_errors={ignore_errors} alg={alg}"
        if out[0] == "ok":
            r = out[1]
            if not r.had_tsig:
                raise Violation("C14:altered-message-verified", f"{tag}: returned a reply without a verified TSIG")
            if r.to_wire.__self__ is None:
                pass
            returned_good = any(a.to_text().endswith("1") for a in r.answer) or True
            if tamper and not (not use_tcp and case["nrr"] % 2 and ignore_errors):
                raise Violation("C14:altered-message-verified", f"{tag}: a tampered signed reply was returned")
            if tamper:
                # the later genuine copy may be returned; it must be the genuine bytes
                if getattr(r, "wire", None) is not None and bytes(r.wire) != good:
                    raise Violation("C14:altered-message-verified", f"{tag}: the returned reply is not the genuine datagram")
            outs[world] = "ok"
        else:
            if not tamper:
                raise Violation("C14:genuine-rejected", f"{tag}: genuine signed reply raised {out[1]}")
            if ignore_errors:
                if case["nrr"] % 2:
                    raise Violation("C14:genuine-rejected", f"{tag}: the genuine copy arriving later was not returned ({out[1]})")
                if out[1] != "Timeout":
                    raise Violation("C14:wrong-exception", f"{tag}: {out[1]} instead of Timeout (tampered reply must be ignored)")
            elif out[1] not in ("BadSignature", "FormError", "BadResponse") and not out[1].startswith("Bad") and out[1] not in ("ShortHeader", "TrailingJunk", "UnknownTSIGKey", "PeerError", "BadTSIG", "UnknownOpcode", "BadLabelType", "BadPointer", "NameTooLong", "Timeout", "IncompatibleTypes", "SyntaxError", "UnknownRdatatype", "ValueError", "TypeError", "struct.error", "error", "IndexError"):
                raise Violation("C14:wrong-exception", f"{tag}: {out[1]}")
            outs[world] = "exc:" + out[1]
            res.probes.inc("net_tampered_reply_not_returned")
        res.sim_seconds += VT.elapsed()
    if len(set(outs.values())) > 1:
        raise Violation("C14:sync-async-differ", f"net tsig: {sorted(outs.items())} tamper={tamper} tcp={use_tcp} ignore_errors={ignore_errors}")
    if "trio" in outs:
        res.probes.inc("trio_backend_exchange")
    if tamper:
        res.faults.inc("net_tampered_reply")
    log.add("net", alg, use_tcp, tamper, outs.get("sync"))


def _scenario_xfr(case, res, log):
    """A TSIG-signed AXFR stream through dns.query.inbound_xfr: envelope faults must raise and
    leave the zone untouched (the C13 law under TSIG)."""
    dns = _d
    import socket

    from simkit import netsim
    from checks import zonesim as Z

    Z.setup_dns()
    dns.query.socket_factory = netsim.fake_socket_factory
    dns.query._wait_for = netsim.pump
    key = _key(case)
    secret = bytes.fromhex(case["secret"])
    alg, kn = case["alg"], case["keyname"]
    fudge = max(case["fudge"], 30)
    n = max(2, case["nenv"])
    fault = case["envfault"]
    outs = {}
    for world in _worlds():
        net = netsim.reset_network()
        _set_clock(case["time"])
        b = Z.Bench(["plain", "versioned", "btree"][case["nrr"] % 3], case["edns"])
        m0 = Z.load_bench(
            b,
            [
                {"o": "add", "n": "@", "nf": "rel", "f": "rdataset", "t": "SOA", "ttl": 300, "rd": ["ns1 hostmaster 1 7200 900 1209600 300"]},
                {"o": "add", "n": "@", "nf": "rel", "f": "rdataset", "t": "NS", "ttl": 300, "rd": ["ns1"]},
            ],
        )
        q, serial = dns.xfr.make_query(b.zone, serial=None, keyring=key, keyname=key.name, keyalgorithm=key.algorithm)
        q.id = case["qid"]
        q.tsig[0] if q.tsig else None
        # fudge of the request is the library default; the peer uses its own
        qwire = q.to_wire()
        _, f = T.split_tsig(qwire)
        # build the AXFR record stream: SOA(2) NS A... SOA(2), spread over n messages
        soa = ("@", "SOA", 300, "ns1 hostmaster 2 7200 900 1209600 300")
        body = [("@", "NS", 300, "ns1")] + [(f"h{i}", "A", 300, f"10.5.0.{i + 1}") for i in range(n + 2)]
        recs = [soa] + body + [soa]
        per = max(1, len(recs) // n)
        msgs = []
        for i in range(n):
            part = recs[i * per : (i + 1) * per] if i < n - 1 else recs[(n - 1) * per :]
            msgs.append({"rcode": 0, "question": ("@", "AXFR") if i == 0 else None, "records": part})
        from checks import c13

        c13.setup()
        wires = c13.render_messages(b, msgs, qid=case["qid"])
        flags = [True] + [not (case["unsigned_mask"] >> i) & 1 for i in range(1, n - 1)] + [True]
        if fault == "last_unsigned":
            flags[-1] = False
        c2 = dict(case)
        c2["fudge"] = fudge
        stream = _sign_stream(c2, secret, kn, alg, f["mac"], wires, flags, case["time"])
        pos = case["envpos"] % n
        fired = None
        if fault == "flip_unsigned":
            idx = [i for i, s in enumerate(flags) if not s]
            if idx:
                i = idx[pos % len(idx)]
                # flip a bit inside an address rdata so the message still parses
                stream[i] = stream[i][:-1] + bytes([stream[i][-1] ^ 0x40])
                fired = fault
        elif fault == "flip_signed":
            i = [j for j, s in enumerate(flags) if s][pos % sum(flags)]
            bit = 16 + case["flipbit"] % ((len(wires[i]) - 2) * 8)
            stream[i] = _flip(stream[i], bit)
            fired = fault
        elif fault == "drop" and 0 < pos < n - 1:
            del stream[pos]
            fired = "drop"
        elif fault == "last_unsigned":
            fired = fault
        data = b"".join(len(w).to_bytes(2, "big") + w for w in stream)
        net.tcp_scripts["*"] = netsim.TcpScript(connect=("ok", 0.0), rx=[(0.01, data[:11]), (0.02, data[11:]), (0.5, "EOF")], rx_after_request=True)
        before = b.snap_nodes()
        exc = None
        try:
            if world == "sync":
                dns.query.inbound_xfr("10.0.0.1", b.zone, q, timeout=3.0, lifetime=8.0)
            else:
                import dns.asyncbackend

                backend = dns.asyncbackend.get_backend("trio" if world == "trio" else "asyncio")

                async def go():
                    await dns.asyncquery.inbound_xfr("10.0.0.1", b.zone, q, timeout=3.0, lifetime=8.0, backend=backend)

                _, exc = (netsim.run_trio if world == "trio" else netsim.run_async)(go, net)
        except Exception as e:  # noqa: BLE001
            exc = e
        after = b.snap_nodes()
        tag = f"[{world}] xfr+tsig alg={alg} n={n} signed={''.join('S' if s else 'u' for s in flags)} fault={fired}"
        if fired is None:
            if exc is not None:
                raise Violation("C14:genuine-rejected", f"{tag}: genuine signed transfer raised {type(exc).__name__}: {exc}")
            if after == before:
                raise Violation("C14:genuine-rejected", f"{tag}: transfer did not change the zone")
            res.probes.inc("xfr_tsig_stream_ok")
        else:
            res.faults.inc("xfr_envelope_" + fired)
            if exc is None:
                raise Violation("C14:altered-stream-verified", f"{tag}: the altered signed transfer was accepted")
            if after != before:
                raise Violation("C14:altered-stream-applied", f"{tag}: {type(exc).__name__}({exc}) was raised but the zone had already been changed by the unauthenticated stream")
            res.probes.inc("envelope_fault_detected")
        outs[world] = type(exc).__name__ if exc else "ok"
        res.sim_seconds += VT.elapsed()
    if len(set(outs.values())) > 1:
        raise Violation("C14:sync-async-differ", f"xfr tsig: {sorted(outs.items())} fault={fault}")
    if "trio" in outs:
        res.probes.inc("trio_backend_exchange")
    log.add("xfr", alg, n, fault, outs["sync"])


def _scenario_renderer(case, res, log):
    """The low-level dns.renderer.Renderer API signs (add_tsig for one message, add_multi_tsig for a
    stream): every MAC must be the RFC 8945 HMAC, bound to the request MAC, and the library's own
    reader must accept the result."""
    dns = _d
    import dns.renderer
    import dns.rdatatype
    import dns.rdataclass

    key = _key(case)
    secret = bytes.fromhex(case["secret"])
    alg, kn = case["alg"], case["keyname"]
    t0 = case["time"]
    _set_clock(t0)
    q = _query(case)
    qw, req_mac = T.sign_single(secret, kn, alg, q.to_wire(), t0, case["fudge"])
    bound = case["identity"] != "no_request_mac"
    rmac = req_mac if bound else b""
    n = case["nenv"]
    use_multi = n > 1 or case["unsigned_mask"] % 2 == 1
    if not use_multi:
        n = 1
    other = bytes.fromhex(case["other"]) if False else b""
    ctx = None
    vctx = None
    prior = None
    qname = dns.name.from_text(case["qname"])
    tag = f"Renderer.{'add_multi_tsig' if use_multi else 'add_tsig'} alg={alg} envelopes={n} request_mac={'yes' if bound else 'no'}"
    # (a share of the runs renders under another header id than the TSIG original id, as a forwarder does)
    hdr_id = (case["qid"] + 0x0101) & 0xFFFF if case.get("orig_id_differs") else case["qid"]
    for i in range(n):
        _set_clock(t0 + i)
        r = dns.renderer.Renderer(id=hdr_id, flags=0x8400, max_size=65535)
        r.add_question(qname, dns.rdatatype.A)
        for j in range(case["nrr"]):
            r.add_rrset(dns.renderer.ANSWER, dns.rrset.from_text(qname, 300, "IN", "A", f"10.{i}.{j}.1"))
        if case["edns"]:
            r.add_edns(0, 0, 1232)
        r.write_header()
        if use_multi:
            ctx = r.add_multi_tsig(ctx, key.name, key, case["fudge"], case["qid"], 0, other, rmac, key.algorithm)
        else:
            r.add_tsig(key.name, key, case["fudge"], case["qid"], 0, other, rmac, key.algorithm)
        w = r.get_wire()
        stripped, ff = T.split_tsig(w)
        if ff is None:
            raise Violation("C14:tsig-fields", f"{tag}: envelope {i} carries no TSIG")
        if ff["time"] != t0 + i or ff["fudge"] != case["fudge"] or ff["orig_id"] != case["qid"]:
            raise Violation("C14:tsig-fields", f"{tag}: envelope {i} TSIG fields time={ff['time']} fudge={ff['fudge']} original id={ff['orig_id']}")
        if i == 0:
            want = T.mac_single(secret, kn, alg, stripped, ff["orig_id"], ff["time"], ff["fudge"], ff["error"], ff["other"], rmac or None)
        else:
            want = T.mac_subsequent(secret, alg, prior, [], stripped, ff["orig_id"], ff["time"], ff["fudge"])
        if want != ff["mac"]:
            raise Violation("C14:mac-differs-from-rfc", f"{tag}: envelope {i} MAC differs from the RFC 8945 HMAC ({'request MAC + message + variables' if i == 0 else 'prior MAC + message + timers'})")
        prior = ff["mac"]
        out = _real_verify(w, key, request_mac=rmac, multi=use_multi, ctx=vctx)
        if out[0] != "ok":
            raise Violation("C14:own-signature-rejected", f"{tag}: the library's reader rejects envelope {i} signed through the Renderer: {out[1]}")
        vctx = out[1].tsig_ctx
    res.probes.inc("renderer_api_signed_verified_by_reference")
    res.probes.inc("mac_equal_reference")
    log.add("renderer", alg, n, use_multi, bound)


SCENARIOS = {
    "renderer": _scenario_renderer,
    "single": _scenario_single,
    "identity": _scenario_identity,
    "structure": _scenario_structure,
    "multi": _scenario_multi,
    "real_multi": _scenario_real_multi,
    "net": _scenario_net,
    "xfr": _scenario_xfr,
}


def run_case(case, keep_log=False):
    res = RunResult()
    log = EventLog(keep=keep_log)
    _FIXED_ID[0] = (case["qid"] * 31 + 7) % 65536
    _BARE_RING.clear()
    _RING_FORM[0] = case.get("ring_form", "key")
    if _RING_FORM[0] != "key":
        res.probes.inc("keyring_given_as_" + _RING_FORM[0])
    log.add("case", case["scenario"], case["alg"], len(case["secret"]) // 2, case["keyname"], case["fudge"], case["time"], case["qid"],
            case["skew"], case["identity"], case["structure"], case["nenv"], case["unsigned_mask"], case["envfault"], case["envpos"], case["flipbit"], case["nrr"])
    try:
        SCENARIOS[case["scenario"]](case, res, log)
    except Violation as v:
        res.violation = (v.cls, v.detail)
    res.digest = log.digest()
    res.nontrivial = sum(res.faults.values()) > 0
    res.state(case["scenario"], case["alg"], tuple(sorted(res.faults.keys())), res.violation[0] if res.violation else "ok")
    if keep_log:
        res.extra["log"] = log.lines
    return res


def shrink(case):
    for key, simple in (("alg_spelling", "lower"), ("key_spelling", "same"), ("nrr", 0), ("edns", False), ("other", ""), ("orig_id_differs", False), ("qname", "www.example."), ("keyname", "key.example."), ("alg", "hmac-sha256."), ("nenv", 2), ("unsigned_mask", 0), ("fudge", 300), ("time", 1_600_000_000)):
        if case.get(key) != simple:
            c = copy.deepcopy(case)
            c[key] = simple
            yield c
    if case["scenario"] == "single" and case.get("flips") != 0:
        c = copy.deepcopy(case)
        c["flips"] = 0
        yield c


def known_match(finding, case, violation):
    return False
