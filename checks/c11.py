"""C11 -- versioned-zone readers see one immutable snapshot; version retention is sound.

Engine: zonesim.  Interleaved histories of reader open/close (latest, by id, by
serial), writer commit/rollback/exception, pruning-policy changes and a hostile
reader that sweeps (by reflection) the mutator surface of everything reachable
from a snapshot.  Oracles: a version-store model (retention rule), snapshot
equality of every open reader after every step, structural retention invariants,
and a deep fingerprint of all retained versions around every hostile call.
"""

import copy

from simkit.core import EventLog, RunResult, Violation, sub_rng
from simkit.refzone import ModelError
from checks import zonesim as Z

PROP = "C11"
ENGINE = "zonesim"
LEVEL = "exploration"
TIERS = {
    "quick": {"runs": 8000, "budget_s": 75},
    "thorough": {"runs": 600000, "budget_s": 1500},
}
DET_EVERY = 40
RULE = (
    "one run = one seeded interleaved history (<= 40 steps) of reader open (latest / id= / serial=) and close, "
    "snapshot reads, write transactions that commit, roll back or raise, set_max_versions / set_pruning_policy "
    "changes, and hostile-reader mutator sweeps, on dns.versioned.Zone or dns.btreezone.Zone, relativized or "
    "absolute; non-trivial = a reader stayed open across at least one later commit or a policy/close pruned a "
    "version; distinct = distinct event-log digests"
)
STATE_MEASURE = "distinct (retained version ids relative to newest, pinned ids relative to newest, policy) triples"
COMPONENTS_REAL = [
    "dns.versioned.Zone.reader/_end_read/_prune_versions_unlocked/set_max_versions/set_pruning_policy/_commit_version",
    "dns.zone.ImmutableVersion / ImmutableVersionedNode, dns.btreezone.ImmutableVersion / ImmutableNode",
    "dns.rdataset.ImmutableRdataset, dns.immutable.Dict, dns._immutable_ctx, dns.btree (frozen trees)",
    "dns.transaction.Transaction read API",
]
COMPONENTS_STUB = ["clients issuing the history", "pruning policies (pure functions of version id / count)", "threading.Lock/Event inside dns.versioned (scheduler shim, concurrent tier)"]
EXPECTED_PROBES = [
    "reader_pinned_oldest_of_3plus",
    "reader_id_of_pruned_version",
    "reader_by_serial_non_newest",
    "policy_change_pruned",
    "reader_close_pruned",
    "commit_without_change_no_version",
    "hostile_calls",
    "reader_open_across_commit",
    "conc_tier_runs",
]


def setup():
    Z.setup_dns()
    Z.install_commit_fault()
    import dns.versioned
    import dns.zone
    import dns.btreezone

    from simkit import threadsim

    dns.versioned.threading = threadsim.SHIM
    funcs = threadsim.functions_of(dns.versioned.Zone)
    funcs += threadsim.functions_of(dns.zone.Transaction, {"_setup_version", "_end_transaction", "__init__"})
    threadsim.enable_line_preemption(funcs)


def _gen_conc(seed, rng):
    nthreads = rng.choice([2, 3, 3, 4, 5])
    threads = []
    for i in range(nthreads):
        role = rng.choice(["w", "r", "r", "r", "p"]) if i else "w"
        n = rng.choice([1, 2, 3])
        if role == "w":
            ops = [{"k": "w", "end": rng.choice(["commit", "commit", "commit", "rollback"])} for _ in range(n)]
        elif role == "r":
            ops = [{"k": "r", "how": rng.choice(["latest", "latest", "id"]), "rel": rng.choice([0, 1, 2]), "hold": rng.choice([0, 1, 3]), "close": rng.choice(["rollback", "with"])} for _ in range(n)]
        else:
            ops = [{"k": "p", "n": rng.choice([1, 1, 2, 3, None])} for _ in range(n)]
        threads.append({"ops": ops})
    strat = {
        "kind": rng.choice(["random", "random", "pct", "starve", "newcomer"]),
        "p_sync": rng.choice([0.3, 0.6, 0.9]),
        "p_line": rng.choice([0.0, 0.05, 0.2, 0.5, 1.0]),
        "d": rng.choice([1, 2, 3]),
        "est_steps": rng.choice([100, 400]),
        "victim": rng.randrange(nthreads),
    }
    cfg = {"kind": rng.choice(["versioned", "btree"]), "relativize": rng.random() < 0.5, "init_policy": rng.choice([None, None, "max2"]), "strategy": strat}
    return {"prop": PROP, "seed": seed, "mode": "conc", "cfg": cfg, "threads": threads, "schedule": None}


def gen_case(seed, tier):
    rng = sub_rng(seed, "workload")
    big = tier == "thorough"
    if rng.random() < 0.25:
        return _gen_conc(seed, rng)
    names = rng.sample(Z.NAMES, rng.choice([2, 3, 4]))
    if "@" not in names:
        names.append("@")
    types = rng.sample(Z.TYPES, rng.choice([2, 3, 5]))
    btree_t = rng.choice([3, 3, 4, 127])
    wide = rng.random() < 0.3
    if wide:
        # many sibling owners (and NS among the types): the node map and the B-tree zone's delegation
        # index grow beyond one B-tree node, so old versions share inner nodes with new ones
        names = names + [f"d{i:02d}" for i in range(rng.choice([10, 16, 24]))]
        types = ["NS", "NS", "NS", "NS", "A"] + sorted(set(types) - {"NS", "A", "CNAME"})[:2]
    cfg = {
        "kind": rng.choice(["versioned", "btree"]),
        "relativize": rng.random() < 0.5,
        "init_policy": rng.choice([None, None, "never", "max3"]),
        "load_replacement": rng.random() < 0.7,
    }
    base = Z.base_load(rng, rng.choice([20, 40]) if wide else rng.choice([1, 4]), names, types)
    steps = []
    n = rng.choice([6, 12, 25, 40] if big else [6, 12, 25])
    for _ in range(n):
        r = rng.random()
        if r < 0.22:
            how = rng.choice(["latest", "latest", "id", "id", "serial"])
            steps.append({"s": "open", "how": how, "rel": rng.choice([0, 0, 1, 1, 2, 3, 5, -1])})
        elif r < 0.37:
            steps.append({"s": "close", "h": rng.randrange(8), "how": rng.choice(["rollback", "commit", "with", "with_exc", "with_base_exc"])})
        elif r < 0.45:
            steps.append({"s": "read", "h": rng.randrange(8)})
        elif r < 0.75:
            ops = [Z.gen_op(rng, names, types, allow_bad=False) for _ in range(rng.choice([0, 1, 1, 2, 3]))]
            if rng.random() < 0.6:
                ops.append({"o": "serial", "v": 1, "rel": True, "n": "@", "nf": "abs"})
            steps.append({"s": "write", "ops": ops, "end": rng.choice(["commit", "commit", "commit", "commit", "rollback", "exc", "commit_fault"])})
        elif r < 0.83:
            steps.append({"s": "maxv", "n": rng.choice([1, 2, 3, 5, None])})
        elif r < 0.92:
            steps.append({"s": "policy", "kind": rng.choice(["default", "never", "keep_ge", "prune_odd", "always", "toggle", "toggle"]), "k": rng.choice([0, 1, 2, 3])})
            if rng.random() < 0.5:
                # the answer of a policy may change without any zone event (retention by age, by configuration)
                steps.append({"s": "toggle"})
        elif r < 0.97:
            steps.append({"s": "hostile", "h": rng.randrange(8)})
        else:
            steps.append({"s": "zone_mut"})
    return {"prop": PROP, "seed": seed, "cfg": cfg, "base": base, "steps": steps, "btree_t": btree_t, "empty_rdataset": rng.random() < 0.15, "policy_returns": rng.choice(["bool", "bool", "nonbool"])}


# ---------------------------------------------------------------------------
# pruning policies: pure functions of (version id, number retained); the model
# evaluates the same function, the zone gets a callable wrapper.


def _policy_fn(kind, k, newest_at_set):
    if kind in ("default", "always", None):
        return lambda vid, count: True
    if kind == "never":
        return lambda vid, count: False
    if kind == "keep_ge":
        thr = newest_at_set - k
        return lambda vid, count: vid < thr
    if kind == "prune_odd":
        return lambda vid, count: vid % 2 == 1
    if kind.startswith("max"):
        n = int(kind[3:])
        return lambda vid, count: count > n
    raise ValueError(kind)


def _poke(obj, rd, rds):
    """Try the obvious in-place mutations on an object returned by a call of the sweep."""
    import dns.rdataset
    import dns.node

    attempts = []
    if isinstance(obj, dns.rdataset.Rdataset):
        attempts = [lambda: obj.clear(), lambda: obj.add(rd), lambda: obj.update_ttl(0), lambda: obj.items.clear()]
    elif isinstance(obj, dns.node.Node):
        attempts = [lambda: obj.replace_rdataset(rds), lambda: obj.rdatasets.clear(), lambda: obj.rdatasets.append(rds)]
    elif isinstance(obj, dict):
        attempts = [lambda: obj.clear()]
    elif isinstance(obj, list):
        attempts = [lambda: obj.clear()]
    elif isinstance(obj, set):
        attempts = [lambda: obj.clear()]
    for a in attempts:
        try:
            a()
        except BaseException as e:  # noqa: BLE001
            if isinstance(e, (KeyboardInterrupt, SystemExit)):
                raise


class _World:
    def __init__(self, case, res, log):
        self.case = case
        self.res = res
        self.log = log
        cfg = case["cfg"]
        self.policy = _policy_fn(cfg["init_policy"] or "default", 0, 0)
        self.policy_name = cfg["init_policy"] or "default"
        self.policy_calls = 0
        pol = None
        if cfg["init_policy"] is not None:
            pol = self._wrap_policy()
        self.b = Z.Bench(cfg["kind"], cfg["relativize"], pruning_policy=pol)
        self.zone = self.b.zone
        # model: all versions ever (id -> snapshot), retained ids (ordered), readers
        self.toggle = False
        self.all_versions = {}
        self.derived = {}
        self.serial_of = {}
        first = self.zone._versions[-1].id
        self.all_versions[first] = frozenset()
        self.serial_of[first] = None
        self.retained = [first]
        self.readers = []  # list of (txn, version id)
        self.model = Z.load_bench(self.b, case["base"], replacement=cfg.get("load_replacement", True))
        self._committed(self.model)
        if case.get("empty_rdataset"):
            # an rdataset object without records is accepted by add(); it is then part of every later
            # snapshot (on an owner no other operation of the history touches) and must be as
            # immutable as any other
            import dns.rdataset
            import dns.rdataclass
            import dns.rdatatype

            with self.zone.writer() as txn:
                txn.add(self.b.name_arg("emptyrds", "rel" if self.b.relativize else "abs"), dns.rdataset.Rdataset(dns.rdataclass.IN, dns.rdatatype.TXT))
            self.model.content[self.b.absname("emptyrds")] = {(16, 0): [0, set()]}
            self._committed(self.model)
            self.res.probes.inc("snapshot_contains_an_empty_rdataset")
        self.max_seen_id = self.retained[-1]

    def _wrap_policy(self):
        def policy(zone, version):
            self.policy_calls += 1
            r = self.policy(version.id, len(zone._versions))
            if self.case.get("policy_returns") == "nonbool":
                # the documented return type is `bool | None`: None (or any falsy value) means keep
                return 1 if r else (None if version.id % 2 else 0)
            return r

        return policy

    # ---- model of retention ----
    def _model_prune(self):
        pinned = [vid for _, vid in self.readers]
        least_kept = min(pinned) if pinned else self.retained[-1]
        pruned = 0
        while self.retained[0] < least_kept and self.policy(self.retained[0], len(self.retained)):
            self.retained.pop(0)
            pruned += 1
        return pruned

    def _serial(self, m):
        v = m.get(self.b.origin, 6, 0)
        if v is None:
            return None
        (rid,) = tuple(v[1])
        return Z._soa_serial(self.b)[0](rid)

    def _derived(self, v):
        """What a B-tree zone version carries besides names and rdatasets."""
        if not hasattr(v, "delegations"):
            return None
        return (tuple((str(n), int(getattr(node, "flags", 0))) for n, node in v.nodes.items()), tuple(str(n) for n in v.delegations))

    def _committed(self, m):
        vid = self.retained[-1] + 1
        newest = self.zone._versions[-1]
        if newest.id == vid:
            self.derived[vid] = self._derived(newest)
        self.all_versions[vid] = m.snapshot()
        self.serial_of[vid] = self._serial(m)
        self.retained.append(vid)
        self._model_prune()

    # ---- oracle after every step ----
    def check(self, what):
        z = self.zone
        b = self.b
        ids = [v.id for v in z._versions]
        if any(b2 <= a for a, b2 in zip(ids, ids[1:])):
            raise Violation("C11:ids-not-increasing", f"{what}: retained ids {ids}")
        if ids != list(range(ids[0], ids[0] + len(ids))):
            raise Violation("C11:retention-not-contiguous", f"{what}: retained ids {ids}")
        newest = self.retained[-1]
        if ids[-1] != newest:
            raise Violation("C11:newest-not-retained", f"{what}: retained ids {ids}, newest committed {newest}")
        if ids[-1] < self.max_seen_id:
            raise Violation("C11:ids-not-increasing", f"{what}: newest id {ids[-1]} below an earlier id {self.max_seen_id}")
        self.max_seen_id = ids[-1]
        for _, vid in self.readers:
            if vid not in ids or any(x not in ids for x in range(vid, newest + 1)):
                raise Violation("C11:pinned-version-pruned", f"{what}: reader pins {vid}, retained {ids}")
        if ids != self.retained:
            raise Violation(
                "C11:retention-policy",
                f"{what}: retained ids {ids} but policy '{self.policy_name}' with pinned {[v for _, v in self.readers]} allows exactly {self.retained}",
            )
        if len(z._readers) != len(self.readers):
            raise Violation("C11:reader-registry", f"{what}: zone has {len(z._readers)} readers registered, {len(self.readers)} are open")
        if z.nodes is not z._versions[-1].nodes:
            raise Violation("C11:published-nodes", f"{what}: zone.nodes is not the newest version's map")
        for txn, vid in self.readers:
            got = b.snap_txn(txn)
            if got != self.all_versions[vid]:
                Z.compare("C11:snapshot-moved", b, got, self.all_versions[vid], f"{what}: reader on version {vid}")
            if txn.version.id != vid:
                raise Violation("C11:snapshot-moved", f"{what}: reader's version id changed")
        # nothing reachable from a retained version may be a mutable object: where one is found, an
        # ordinary mutator is tried on it (it then succeeds, which is the breach)
        import dns.rdatatype as _rt

        for v in z._versions:
            for nm, node in v.nodes.items():
                if not node.is_immutable():
                    try:
                        node.find_rdataset(1, _rt.HINFO, create=True)
                    except Exception:  # noqa: BLE001
                        continue
                    raise Violation("C11:immutability-breach", f"{what}: node {nm} of retained version {v.id} is a mutable {type(node).__name__}: find_rdataset(create=True) on it succeeded")
        # every retained version still holds its content
        for v in z._versions:
            got = b.snap_nodes(v.nodes)
            if got != self.all_versions[v.id]:
                Z.compare("C11:version-content-changed", b, got, self.all_versions[v.id], f"{what}: retained version {v.id}")
        for v in list(z._versions) + [t.version for t, _ in self.readers]:
            if self.derived.get(v.id) is not None:
                try:
                    now = self._derived(v)
                except Exception as e:  # noqa: BLE001
                    raise Violation("C11:version-content-changed", f"{what}: walking flags / delegation index of version {v.id} raises {type(e).__name__}: {e}")
                if now != self.derived[v.id]:
                    raise Violation("C11:version-content-changed", f"{what}: flags or delegation index of version {v.id} changed after it was published ({len(self.derived[v.id][1])} -> {len(now[1])} delegation points)")
        rel = tuple(i - newest for i in ids)
        self.res.state(rel, tuple(sorted(v - newest for _, v in self.readers)), self.policy_name)

    # ---- steps ----
    def step_open(self, st):
        z = self.zone
        newest = self.retained[-1]
        how = st["how"]
        if how == "latest":
            txn = z.reader()
            vid = newest
            want_err = False
        elif how == "id":
            vid = newest - st["rel"] if st["rel"] >= 0 else newest + 1
            want_err = vid not in self.retained
            if vid in self.all_versions and vid not in self.retained:
                self.res.probes.inc("reader_id_of_pruned_version")
            try:
                txn = z.reader(id=vid)
            except KeyError:
                if not want_err:
                    raise Violation("C11:reader-by-id", f"reader(id={vid}) raised KeyError but version is retained {self.retained}")
                return
            if want_err:
                raise Violation("C11:reader-by-id", f"reader(id={vid}) succeeded but retained versions are {self.retained}")
        else:
            tgt = newest - st["rel"] if st["rel"] >= 0 else None
            serial = self.serial_of.get(tgt) if tgt is not None else 999999
            if serial is None:
                serial = 999998
            # newest-first among retained versions with that serial
            vid = None
            for cand in reversed(self.retained):
                if self.serial_of.get(cand) == serial:
                    vid = cand
                    break
            try:
                txn = z.reader(serial=serial)
            except KeyError:
                if vid is not None:
                    raise Violation("C11:reader-by-serial", f"reader(serial={serial}) raised KeyError but retained version {vid} has it")
                return
            if vid is None:
                raise Violation("C11:reader-by-serial", f"reader(serial={serial}) succeeded but no retained version has that serial")
            if vid != newest:
                self.res.probes.inc("reader_by_serial_non_newest")
        if txn.version.id != vid:
            raise Violation("C11:reader-wrong-version", f"reader({how}) got version {txn.version.id}, expected {vid}")
        self.readers.append((txn, vid))
        if len(self.retained) >= 3 and vid == self.retained[0]:
            self.res.probes.inc("reader_pinned_oldest_of_3plus")

    def step_close(self, st):
        if not self.readers:
            return
        txn, vid = self.readers.pop(st["h"] % len(self.readers))
        if vid < self.retained[-1]:
            self.res.probes.inc("reader_open_across_commit")
        if st["how"] == "rollback":
            txn.rollback()
        elif st["how"] == "commit":
            txn.commit()
        elif st["how"] in ("with_exc", "with_base_exc"):
            # the reader's `with` body is left through an exception: the reader must be closed all the same
            exc = Z.Planned if st["how"] == "with_exc" else Z.PlannedBase
            try:
                with txn:
                    raise exc("reader body")
            except (Z.Planned, Z.PlannedBase):
                pass
            self.res.faults.inc("reader_left_through_exception")
        else:
            with txn:
                pass
        if self._model_prune():
            self.res.probes.inc("reader_close_pruned")
            self.nontrivial = True

    def step_write(self, st):
        b = self.b
        work = self.model.copy()
        committed = False
        try:
            with self.zone.writer() as txn:
                for op in st["ops"]:
                    want = None
                    saved = work.copy()
                    try:
                        Z.apply_model(b, work, op)
                    except ModelError as e:
                        want = e.name
                        work = saved
                    got = None
                    try:
                        Z.apply_real(b, txn, op)
                    except Exception as e:  # noqa: BLE001
                        got = type(e).__name__
                    if got != want:
                        raise Violation("C11:op-outcome", f"{Z.describe(op)}: real {got}, model {want}")
                if st["end"] == "rollback":
                    txn.rollback()
                elif st["end"] == "exc":
                    self.res.faults.inc("writer_exception")
                    raise Z.Planned("abort")
                elif st["end"] == "commit_fault":
                    # the commit itself fails while the new version is built: nothing is published, the
                    # transaction has ended, trying again is refused
                    import dns.transaction

                    real_changed = txn.changed()
                    Z.COMMIT_FAULT["armed"] = True
                    try:
                        txn.commit()
                        committed = True  # (nothing had to be frozen: an ordinary commit)
                    except MemoryError:
                        self.res.faults.inc("allocation_failure_inside_commit")
                        try:
                            txn.commit()
                        except dns.transaction.AlreadyEnded:
                            pass
                        except Exception as e:  # noqa: BLE001
                            raise Violation("C11:failed-commit-retry", f"commit() after a failed commit raised {type(e).__name__}: {e}")
                        else:
                            raise Violation("C11:failed-commit-retry", "commit() after a failed commit was accepted")
                    finally:
                        Z.COMMIT_FAULT["armed"] = False
                else:
                    committed = True
                    real_changed = txn.changed()
        except Z.Planned:
            committed = False
        except Violation:
            raise
        except Exception as e:  # noqa: BLE001
            v = Z.first_violation_in_context(e)
            if v is not None:
                raise v
            if Z.raised_in_repo(e):
                raise Violation("C11:unexpected-exception", f"leaving a write transaction (end={st['end']}) raised {type(e).__name__}: {e}")
            raise
        if st["end"] == "rollback":
            self.res.faults.inc("writer_rollback")
        # the writer goes on using the objects it handed to the transaction
        self.res.faults.inc("client_scribbles_on_passed_in_objects", b.scribble_on_handed_in())
        if committed:
            if work.snapshot() != self.model.snapshot() and not real_changed:
                raise Violation("C11:op-outcome", "content changed but changed() is False")
            if real_changed:
                # the documented rule: a transaction that changed something publishes
                # exactly one new version (even if the net content is equal)
                self.model = work
                self._committed(work)
                if self.readers:
                    self.nontrivial = True
            else:
                # nothing changed: no new version may appear (checked by ids == retained)
                self.res.probes.inc("commit_without_change_no_version")

    def step_policy(self, st):
        z = self.zone
        before = list(self.retained)
        if st["s"] == "maxv":
            n = st["n"]
            self.policy = (lambda vid, count: False) if n is None else (lambda vid, count, n=n: count > n)
            self.policy_name = f"max_versions({n})"
            z.set_max_versions(n)
        else:
            kind = st["kind"]
            if kind == "toggle":
                # keeps everything while the switch is off, prunes everything it may once it is on
                self.policy = lambda vid, count: self.toggle
            else:
                self.policy = _policy_fn(kind, st["k"], self.retained[-1])
            self.policy_name = f"{kind}({st['k']})"
            if kind == "default":
                z.set_pruning_policy(None)
            else:
                z.set_pruning_policy(self._wrap_policy())
        self.res.faults.inc("policy_change")
        if self._model_prune():
            self.res.probes.inc("policy_change_pruned")
            self.nontrivial = True

    def step_read(self, st):
        if not self.readers:
            return
        b = self.b
        txn, vid = self.readers[st["h"] % len(self.readers)]
        snap = self.all_versions[vid]
        # point queries through the public read API
        for name, key, ttl, rids in list(snap)[:6]:
            rds = txn.get(name, key[0], key[1])
            if rds is None or rds.ttl != ttl or frozenset(b.rid(r) for r in rds) != rids:
                raise Violation("C11:snapshot-moved", f"reader on version {vid}: get({name}, {key}) disagrees with the snapshot")
            if not txn.name_exists(name):
                raise Violation("C11:snapshot-moved", f"reader on version {vid}: name_exists({name}) is False")
            node = txn.get_node(name)
            if node is None or node.get_rdataset(1, key[0], key[1]) is None:
                raise Violation("C11:snapshot-moved", f"reader on version {vid}: get_node({name}) lacks {key}")
        if vid < self.retained[-1]:
            self.res.probes.inc("reader_open_across_commit")

    # ---- hostile reader ----
    def fingerprint(self):
        b = self.b
        out = []
        for v in self.zone._versions:
            fp = [v.id, b.snap_nodes(v.nodes)]
            if self.case["cfg"]["kind"] == "btree":
                fp.append(tuple((str(n), int(getattr(node, "flags", 0))) for n, node in v.nodes.items()))
                fp.append(tuple(str(n) for n in getattr(v, "delegations", ())))
            fp.append(tuple((str(n), getattr(node, "id", None), len(node.rdatasets)) for n, node in v.nodes.items()))
            out.append(tuple(fp))
        for txn, vid in self.readers:
            out.append((vid, txn.version.id, b.snap_txn(txn)))
        return tuple(out)

    def fast_fp(self):
        """Structural identity fingerprint: every object below a version is
        immutable, so any content change shows as a changed identity, length,
        TTL, flag or key set."""
        out = []
        vs = list(self.zone._versions) + [t.version for t, _ in self.readers]
        for v in vs:
            out.append(v.id)
            out.append(id(v.nodes))
            for n, node in v.nodes.items():
                out.append(id(n))
                out.append(id(node))
                out.append(getattr(node, "flags", 0))
                out.append(getattr(node, "id", 0))
                out.append(id(node.rdatasets))
                for rds in node.rdatasets:
                    # (a breach may have put a foreign object here: never assume the attributes exist)
                    out.append(id(rds))
                    out.append(getattr(rds, "ttl", None))
                    out.append(getattr(rds, "rdtype", None))
                    out.append(getattr(rds, "covers", None))
                    items = getattr(rds, "items", None)
                    out.append(id(items))
                    if isinstance(items, dict) or hasattr(items, "__iter__"):
                        out.extend(id(rd) for rd in items)
            d = getattr(v, "delegations", None)
            if d is not None:
                out.extend(id(x) for x in d)
        return out

    def step_hostile(self, st):
        import dns.rdataclass
        import dns.rdatatype
        import dns.rdataset
        import dns.node

        b = self.b
        z = self.zone
        if self.readers:
            txn, vid = self.readers[st["h"] % len(self.readers)]
            ephemeral = None
        else:
            txn = z.reader()
            vid = self.retained[-1]
            self.readers.append((txn, vid))
            ephemeral = txn
        rng = sub_rng(self.case["seed"], f"hostile{st['h']}")
        version = txn.version
        new_rd = b.rdata("A", "10.9.9.9")
        new_txt = b.rdata("TXT", '"evil"')
        new_rds = b.rdataset("A", 1, ["10.9.9.9"])
        new_rds_txt = b.rdataset("TXT", 1, ['"evil"'])
        some_name = b.name_arg("hostile", "abs" if not b.relativize else "rel")
        IN = dns.rdataclass.IN
        targets = [("version", version), ("nodes", version.nodes), ("txn", txn)]
        if hasattr(version, "delegations"):
            targets.append(("delegations", version.delegations))
        names = list(version.nodes.keys())
        rng.shuffle(names)
        names = names[:3]
        if self.case.get("empty_rdataset"):
            en = self.b.name_arg("emptyrds", "rel" if self.b.relativize else "abs")
            if en in version.nodes and en not in names:
                names.append(en)
        for name in names:
            for label, node in (
                ("node(get_node)", txn.get_node(name)),
                ("node(version.nodes)", version.nodes[name]),
                ("node(zone.nodes)", z.nodes.get(name)),
            ):
                if node is None:
                    continue
                targets.append((label, node))
                # the containers behind a node and an rdataset are reachable too
                targets.append(("container(node.rdatasets)", node.rdatasets))
                for rds in list(node.rdatasets)[:2]:
                    targets.append(("rdataset(" + label + ")", rds))
                    targets.append(("container(rdataset.items)", rds.items))
            for rds in list(version.nodes[name].rdatasets)[:1]:
                got = txn.get(name, rds.rdtype, rds.covers)
                if got is not None:
                    targets.append(("rdataset(txn.get)", got))
                zr = z.get_rdataset(name, rds.rdtype, rds.covers) if vid == self.retained[-1] else None
                if zr is not None:
                    targets.append(("rdataset(zone.get_rdataset)", zr))
        arg_sets = [
            (),
            (new_rd,),
            (new_rd, 1),
            (new_rds,),
            (new_rds_txt,),
            (new_txt,),
            (some_name,),
            (some_name, new_rds),
            (some_name, dns.node.Node()),
            (IN, dns.rdatatype.A),
            (IN, dns.rdatatype.A, dns.rdatatype.NONE, True),
            (IN, dns.rdatatype.TXT, dns.rdatatype.NONE, True),
            (0,),
            (1,),
            ({some_name: dns.node.Node()},),
        ]
        SKIP = {"writer", "reader", "commit", "rollback", "to_file", "to_text", "to_wire", "to_styled_text", "cursor", "make_immutable"}
        INPLACE = ["__setitem__", "__delitem__", "__ior__", "__iand__", "__iadd__", "__isub__", "__ixor__"]
        base_fp = self.fingerprint()
        base_fast = self.fast_fp()
        calls = 0
        for label, obj in targets:
            meths = [m for m in dir(type(obj)) if not m.startswith("_") and m not in SKIP]
            meths += [m for m in INPLACE if hasattr(type(obj), m)]
            for m in meths:
                try:
                    fn = getattr(obj, m)
                except Exception:  # noqa: BLE001
                    continue
                if not callable(fn):
                    continue
                if label == "txn" and m not in ("add", "replace", "delete", "delete_exact", "update_serial", "check_put_rdataset"):
                    continue
                for args in rng.sample(arg_sets, 5):
                    try:
                        r = fn(*args)
                        if hasattr(r, "__next__"):
                            r = list(r)
                        # whatever a call hands out must not be a mutable alias of snapshot state:
                        # poke the returned object(s) and let the fingerprint decide
                        for obj2 in (r if isinstance(r, (list, tuple)) else [r]):
                            for sub in (obj2 if isinstance(obj2, tuple) else [obj2]):
                                _poke(sub, new_rd, new_rds_txt)
                    except BaseException as e:  # noqa: BLE001
                        if isinstance(e, (KeyboardInterrupt, SystemExit)):
                            raise
                    calls += 1
                if self.fast_fp() != base_fast:
                    raise Violation(
                        "C11:immutability-breach",
                        f"{label}.{m}(...) changed the content reachable from retained versions/open readers ({type(obj).__name__})",
                    )
            # attribute assignment / deletion on every attribute and slot
            attrs = set()
            for klass in type(obj).__mro__:
                attrs.update(getattr(klass, "__slots__", ()) or ())
            attrs.update(getattr(obj, "__dict__", {}).keys())
            import dns._immutable_ctx

            if label in ("txn",) or not isinstance(obj, dns._immutable_ctx._Immutable):
                # the transaction object itself is not part of the snapshot; plain
                # containers (frozen BTreeDict/BTreeSet) promise immutability of their
                # mapping/set API only, which the method sweep above covers
                attrs = set()
            for a in sorted(attrs):
                if a.startswith("__"):
                    continue
                for action in ("set", "del"):
                    try:
                        if action == "set":
                            setattr(obj, a, None)
                        else:
                            delattr(obj, a)
                        ok = True
                    except BaseException:  # noqa: BLE001
                        ok = False
                    calls += 1
                    if ok and label != "txn":
                        raise Violation("C11:immutability-breach", f"{action}attr({label}, {a!r}) succeeded on {type(obj).__name__}")
        # curated mutators with effective arguments must raise
        must_raise = []
        for label, obj in targets:
            if label.startswith("rdataset"):
                must_raise += [
                    (label, "add", lambda o=obj: o.add(new_rd if o.rdtype == 1 else b.rdata(dns.rdatatype.to_text(o.rdtype) if o.rdtype != 46 else "A", "10.9.9.9") if False else new_rd)),
                    (label, "update_ttl", lambda o=obj: o.update_ttl(0 if o.ttl > 0 else 5)),
                    (label, "clear", lambda o=obj: o.clear()),
                    (label, "__delitem__", lambda o=obj: o.__delitem__(0)),
                ]
            elif label.startswith("node"):
                must_raise += [
                    (label, "replace_rdataset", lambda o=obj: o.replace_rdataset(new_rds_txt)),
                    (label, "delete_rdataset", lambda o=obj: o.delete_rdataset(IN, o.rdatasets[0].rdtype, o.rdatasets[0].covers)),
                    (label, "find_rdataset(create)", lambda o=obj: o.find_rdataset(IN, dns.rdatatype.HINFO, create=True)),
                    (label, "get_rdataset(create)", lambda o=obj: o.get_rdataset(IN, dns.rdatatype.HINFO, create=True)),
                ]
            elif label == "nodes":
                must_raise += [
                    (label, "__setitem__", lambda o=obj: o.__setitem__(some_name, dns.node.Node())),
                    (label, "__delitem__", lambda o=obj: o.__delitem__(next(iter(o.keys())))),
                ]
            elif label == "txn":
                must_raise += [
                    (label, "add", lambda o=obj: o.add(some_name, new_rds)),
                    (label, "replace", lambda o=obj: o.replace(some_name, new_rds)),
                    (label, "delete", lambda o=obj: o.delete(next(iter(o.iterate_names())))),
                ]
        for label, m, fn in must_raise:
            try:
                fn()
            except BaseException as e:  # noqa: BLE001
                if isinstance(e, (KeyboardInterrupt, SystemExit)):
                    raise
                calls += 1
                continue
            calls += 1
            if self.fingerprint() != base_fp:
                raise Violation("C11:immutability-breach", f"{label}.{m} mutated a snapshot")
            raise Violation("C11:mutator-accepted", f"{label}.{m} did not raise on an object reachable from a snapshot")
        if self.fingerprint() != base_fp:
            raise Violation("C11:immutability-breach", "content changed during the hostile sweep")
        self.res.probes.inc("hostile_calls", calls)
        self.res.faults.inc("hostile_mutator_call", calls)
        if ephemeral is not None:
            self.readers.pop()
            ephemeral.rollback()
            self._model_prune()

    def step_zone_mut(self, st):
        import dns.versioned
        import dns.node

        z = self.zone
        b = self.b
        nm = b.name_arg("a", "rel")
        rds = b.rdataset("A", 300, ["10.9.9.9"])
        base_fp = self.fingerprint()
        calls = {
            "delete_node": lambda: z.delete_node(nm),
            "replace_rdataset": lambda: z.replace_rdataset(nm, rds),
            "find_node(create)": lambda: z.find_node(nm, create=True),
            "find_rdataset(create)": lambda: z.find_rdataset(nm, "A", create=True),
            "get_rdataset(create)": lambda: z.get_rdataset(nm, "A", create=True),
            "delete_rdataset": lambda: z.delete_rdataset(nm, "A"),
            "__setitem__": lambda: z.__setitem__(nm, dns.node.Node()),
            "__delitem__": lambda: z.__delitem__(next(iter(z.nodes.keys()))),
        }
        for name, fn in calls.items():
            try:
                fn()
            except BaseException as e:  # noqa: BLE001
                if isinstance(e, (KeyboardInterrupt, SystemExit)):
                    raise
                if self.fingerprint() != base_fp:
                    raise Violation("C11:immutability-breach", f"zone.{name} raised but changed a retained version")
                continue
            raise Violation("C11:mutator-accepted", f"zone.{name} on a versioned zone did not raise")
        self.res.faults.inc("zone_level_mutator_call", len(calls))


def _run_conc(case, res, log):
    """Threaded tier: reader open/close races commits and policy changes at line granularity."""
    import dns.zone
    import dns.versioned
    import dns.btreezone
    import dns.name
    import dns.rdataset

    from simkit import threadsim
    from simkit.threadsim import Deadlock, Scheduler

    cfg = case["cfg"]
    factory = dns.versioned.Zone if cfg["kind"] == "versioned" else dns.btreezone.Zone
    text = "@ 300 IN SOA ns1 hostmaster 1 7200 900 1209600 300\n@ 300 IN NS ns1\ncounter 300 IN TXT \"0\"\n"
    z = dns.zone.from_text(text, origin="example.", relativize=cfg["relativize"], zone_factory=factory)
    if cfg["init_policy"] == "max2":
        z.set_max_versions(2)
    cname = dns.name.from_text("counter", None) if cfg["relativize"] else dns.name.from_text("counter.example.")
    open_readers = []  # (txn, version id, counter value at open)
    state = {"commits": 0}

    def counter_of(txn):
        return int(txn.get(cname, "TXT")[0].strings[0])

    def invariants(what):
        ids = [v.id for v in z._versions]
        if ids != list(range(ids[0], ids[0] + len(ids))):
            raise Violation("C11:retention-not-contiguous", f"{what}: retained ids {ids}")
        for txn, vid, c in open_readers:
            if vid not in ids:
                raise Violation("C11:pinned-version-pruned", f"{what}: an open reader holds version {vid} but the retained ids are {ids}")
            if any(x not in ids for x in range(vid, ids[-1] + 1)):
                raise Violation("C11:pinned-version-pruned", f"{what}: versions newer than a pinned one were pruned: pinned {vid}, retained {ids}")

    def on_step(cur, kind, info):
        invariants(f"step of T{cur.idx} ({kind})")
        res.state(tuple(v.id - z._versions[-1].id for v in z._versions), len(open_readers), z._write_txn is not None)

    def body(t, spec):
        s = sched
        for op in spec["ops"]:
            s.yield_point("op")
            if op["k"] == "w":
                txn = z.writer()
                c = counter_of(txn)
                s.yield_point("op")
                txn.replace(cname, dns.rdataset.from_text("IN", "TXT", 300, f'"{c + 1}"'))
                s.yield_point("op")
                if op["end"] == "commit":
                    txn.commit()
                    state["commits"] += 1
                else:
                    txn.rollback()
                log.add("w", t.idx, op["end"])
            elif op["k"] == "r":
                try:
                    if op["how"] == "id":
                        r = z.reader(id=max(1, z._versions[-1].id - op["rel"]))
                    else:
                        r = z.reader()
                except KeyError:
                    continue
                vid = r.version.id
                entry = (r, vid, None)
                open_readers.append(entry)
                invariants(f"T{t.idx} reader() returned version {vid}")
                c0 = counter_of(r)
                for _ in range(op["hold"]):
                    s.yield_point("op")
                    if counter_of(r) != c0 or r.version.id != vid:
                        raise Violation("C11:snapshot-moved", f"T{t.idx}: reader on version {vid} saw counter {c0} then {counter_of(r)}")
                if len(z._versions) and vid < z._versions[-1].id:
                    res.probes.inc("reader_open_across_commit")
                open_readers.remove(entry)
                if op["close"] == "with":
                    with r:
                        pass
                else:
                    r.rollback()
                log.add("r", t.idx, vid - z._versions[-1].id)
            else:
                z.set_max_versions(op["n"])
                res.faults.inc("policy_change")
                log.add("p", t.idx, op["n"])

    rng = sub_rng(case["seed"], "sched")
    sched = Scheduler(rng, strategy=cfg["strategy"], schedule=case.get("schedule"), step_cap=40000, on_step=on_step, log=log)
    for spec in case["threads"]:
        sched.spawn(lambda t, spec=spec: body(t, spec))
    failure = sched.run()
    res.steps = sched.steps
    res.faults.inc("context_switch", sched.switches)
    res.faults.inc("preemption_at_line", sched.line_yields)
    res.trace = {"schedule": sched.recorded}
    if isinstance(failure, Deadlock):
        raise Violation("C11:deadlock", str(failure))
    if isinstance(failure, Violation):
        if failure.cls == "thread-exception":
            raise Violation("C11:unexpected-exception", failure.detail)
        raise failure
    invariants("end")
    if len(z._readers) != 0:
        raise Violation("C11:reader-registry", "readers still registered after all threads ended")
    res.probes.inc("conc_tier_runs")
    res.nontrivial = sched.switches > 0


def run_case(case, keep_log=False):
    res = RunResult()
    log = EventLog(keep=keep_log)
    if Z.set_btree_branching(case.get("btree_t")) < 127:
        res.faults.inc("btree_branching_factor_lowered")
    if case.get("mode") == "conc":
        try:
            _run_conc(case, res, log)
        except Violation as v:
            res.violation = (v.cls, v.detail)
        res.digest = log.digest()
        if keep_log:
            res.extra["log"] = log.lines
        return res
    try:
        w = _World(case, res, log)
        w.nontrivial = False
        w.check("after load")
        for i, st in enumerate(case["steps"]):
            s = st["s"]
            if s == "open":
                w.step_open(st)
            elif s == "close":
                w.step_close(st)
            elif s == "read":
                w.step_read(st)
            elif s == "write":
                w.step_write(st)
            elif s in ("maxv", "policy"):
                w.step_policy(st)
            elif s == "hostile":
                w.step_hostile(st)
            elif s == "zone_mut":
                w.step_zone_mut(st)
            elif s == "toggle":
                w.toggle = not w.toggle  # (no zone call: the next pruning event sees the new answer)
                res.faults.inc("policy_answer_changed_without_zone_event")
            w.check(f"after step {i} ({s})")
            log.add(i, s, tuple(w.retained), tuple(v for _, v in w.readers))
        # close everything: retention must collapse to what the policy allows
        while w.readers:
            w.step_close({"h": 0, "how": "rollback"})
            w.check("final close")
        res.nontrivial = w.nontrivial
    except Violation as v:
        res.violation = (v.cls if ":" in v.cls else "C11:" + v.cls, v.detail)
    res.digest = log.digest()
    res.steps = len(case["steps"])
    return res


def _shrink_conc(case):
    th = case["threads"]
    for i in range(len(th)):
        if len(th) > 1:
            c = copy.deepcopy(case)
            del c["threads"][i]
            if c.get("schedule"):
                c["schedule"] = [[a - (a > i), k, b - (b > i)] for a, k, b in c["schedule"] if a != i and b != i]
            yield c
    for i, t in enumerate(th):
        for j in range(len(t["ops"])):
            if len(t["ops"]) > 1:
                c = copy.deepcopy(case)
                del c["threads"][i]["ops"][j]
                yield c
    sch = case.get("schedule")
    if sch:
        n = len(sch)
        chunk = max(1, n // 2)
        while chunk >= 1:
            for start in range(0, n, chunk):
                c = copy.deepcopy(case)
                del c["schedule"][start : start + chunk]
                yield c
            if chunk == 1:
                break
            chunk //= 2


def shrink(case):
    if case.get("mode") == "conc":
        yield from _shrink_conc(case)
        return
    st = case["steps"]
    n = len(st)
    chunk = max(1, n // 2)
    while chunk >= 1:
        for start in range(0, n, chunk):
            c = copy.deepcopy(case)
            del c["steps"][start : start + chunk]
            yield c
        if chunk == 1:
            break
        chunk //= 2
    for i, s in enumerate(st):
        if s["s"] == "write":
            for j in range(len(s["ops"])):
                c = copy.deepcopy(case)
                del c["steps"][i]["ops"][j]
                yield c
    for j in range(len(case["base"]) - 1, 1, -1):
        c = copy.deepcopy(case)
        del c["base"][j]
        yield c
    cfg = case["cfg"]
    for key, simple in (("kind", "versioned"), ("relativize", True), ("init_policy", None)):
        if cfg[key] != simple:
            c = copy.deepcopy(case)
            c["cfg"][key] = simple
            yield c


def known_match(finding, case, violation):
    return False
