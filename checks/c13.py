"""C13 -- inbound AXFR/IXFR converges to the server's zone or leaves the zone untouched.

Engine: xfrsim.  Message tier: real dns.xfr.Inbound + the zone transaction stack + the
real wire codec (every message is rendered and re-parsed with xfr=True) driven by a
simulated primary that streams a seeded version chain, cut into messages at seeded
positions, with single stream faults at every position class.  Network tier: the same
streams through dns.query.inbound_xfr / dns.asyncquery.inbound_xfr over netsim (TCP
fragmentation, EOF, stall, UDP IXFR with every UDPMode), optionally TSIG-signed by an
independent signer.  Oracle: an independent naive XFR interpreter (RFC 5936 / RFC 1995)
applied to the *faulted* stream, and the two-sided atomicity law.
"""

import copy

from simkit.core import EventLog, RunResult, Violation, sub_rng
from simkit.refzone import ModelError, RefZone
from checks import zonesim as Z

PROP = "C13"
ENGINE = "xfrsim"
LEVEL = "exploration"
TIERS = {
    "quick": {"runs": 120000, "budget_s": 75},
    "thorough": {"runs": 1000000, "budget_s": 1500},
}
DET_EVERY = 50
RULE = (
    "one run = one seeded chain of 1-5 zone versions, a secondary at version k, one response style (AXFR, IXFR chain, "
    "AXFR-style answer to IXFR, up-to-date, UDP IXFR complete / use-TCP), one way of cutting the record stream into "
    "messages, and zero or one stream fault (drop, duplicate, swap, truncate, serial/owner/type corruption, rcode, wrong "
    "question, surplus after the final SOA, second stream) at a seeded position, on one of the three zone kinds x "
    "relativize; executed through dns.xfr.Inbound (message tier) or dns.query/asyncquery.inbound_xfr over the simulated "
    "network (network tier); non-trivial = a fault fired or the stream had >= 2 messages and >= 2 diffs; distinct = "
    "distinct event-log digests"
)
STATE_MEASURE = "distinct (style, fault kind, position class, outcome) tuples"
COMPONENTS_REAL = [
    "dns.xfr.Inbound.process_message/__exit__, make_query, extract_serial_from_query",
    "dns.transaction / dns.zone / dns.versioned / dns.btreezone transaction stack (replacement txn, delete_exact, add, replace)",
    "dns.message.to_wire / from_wire(xfr=True, one_rr_per_rrset), dns.serial",
    "network tier: dns.query.inbound_xfr/_inbound_xfr, dns.asyncquery.inbound_xfr over netsim",
]
COMPONENTS_STUB = ["the primary server (scripted stream)", "network (netsim)", "TSIG signer of the primary (independent hmac implementation)"]
EXPECTED_PROBES = [
    "server_serial_behind_ours_rfc1982",
    "largest_legal_serial_step_forward",
    "secondary_at_serial_zero",
    "valid_retry_after_failed_attempt",
    "net_tier_runs",
    "out_of_zone_glue_in_valid_stream",
    "valid_axfr",
    "valid_ixfr_chain_3plus",
    "axfr_style_answer_to_ixfr",
    "up_to_date",
    "cut_between_soa_pair",
    "cut_before_final_soa",
    "one_record_per_message",
    "serial_wrap",
    "udp_ixfr_complete",
    "udp_use_tcp",
    "fault_rejected_zone_unchanged",
    "fault_benign_applied",
    "surplus_after_final_soa_same_message",
]

_d = None


def setup():
    global _d
    Z.setup_dns()
    import dns
    import dns.xfr
    import dns.message
    import dns.rrset
    import dns.flags
    import dns.query
    import dns.asyncquery
    import dns.rdtypes.ANY.SOA

    _d = dns
    # ids the library draws for itself must not come from the OS entropy pool
    import dns.entropy

    dns.entropy.random_16 = lambda: 0x2A2A


# ---------------------------------------------------------------------------
# version chains as lists of abstract records  (owner spec, type key, ttl, rdata text)

NAMES = ["@", "a", "b", "a.b", "ns1", "*", "x" * 20]
TYPES = ["A", "AAAA", "TXT", "MX", "NS", "CNAME", "RRSIG:A"]  # signatures are withdrawn and re-issued record by record too


def gen_chain(rng, nver):
    """Returns list of (serial, records) where records is a sorted list of tuples."""
    serial = rng.choice([0, 1, 10, 2**31 - 2, 2**32 - 3, 2**32 - 2, 2**32 - 1, 12345])
    recs = set()
    recs.add(("@", "NS", 300, "ns1"))
    for _ in range(rng.choice([1, 3, 6])):
        recs.add(_gen_rec(rng))
    recs = _normalise(recs)
    versions = [(serial, sorted(recs))]
    for _ in range(nver - 1):
        step = rng.choice([1, 1, 1, 2, 1000])
        serial = (serial + step) % 2**32  # 0 is a legal serial (right after the wrap)
        recs = set(recs)
        for _ in range(rng.choice([0, 1, 2, 4])):
            r = rng.random()
            if r < 0.5 or len(recs) < 2:
                recs.add(_gen_rec(rng))
            elif r < 0.8:
                victim = rng.choice(sorted(recs))
                # (a zone always keeps its apex NS rrset: a zone consisting of the SOA alone is not
                # a valid zone, and its AXFR-style form [SOA, SOA] is indistinguishable from an
                # empty incremental answer)
                if not (victim[0] == "@" and victim[1] == "NS" and sum(1 for x in recs if x[0] == "@" and x[1] == "NS") == 1):
                    recs.discard(victim)
            else:
                # delete a whole node
                n = rng.choice(sorted(recs))[0]
                if n != "@":
                    recs = set(x for x in recs if x[0] != n)
        recs = _normalise(recs)
        versions.append((serial, sorted(recs)))
    return versions


def _gen_rec(rng):
    t = rng.choice(TYPES)
    n = rng.choice(NAMES)
    if t == "CNAME" and n == "@":
        n = "a"
    return (n, t, rng.choice([60, 300, 300, 3600, 2**31 - 1]), rng.choice(Z.RDATA[t]))


def _normalise(recs):
    """Keep the set consistent with what a zone can hold: one TTL per rrset, CNAME exclusivity,
    singleton CNAME."""
    by = {}
    for r in sorted(recs):
        by.setdefault((r[0], r[1]), []).append(r)
    out = set()
    names_with_cname = set(n for (n, t) in by if t == "CNAME")
    for (n, t), lst in by.items():
        if n in names_with_cname and t != "CNAME":
            continue
        ttl = min(x[2] for x in lst)
        if t == "CNAME":
            lst = lst[:1]
        for x in lst:
            out.add((x[0], x[1], ttl, x[3]))
    return out


def soa_rec(serial, ttl=300):
    return ("@", "SOA", ttl, f"ns1 hostmaster {serial} 7200 900 1209600 300")


def serial_lt(a, b):
    return (a < b and b - a < 2**31) or (a > b and a - b > 2**31)


def build_stream(rng, versions, k, style):
    """The valid record stream of a response.  Returns list of records (SOAs included)."""
    n = len(versions) - 1
    sn, rn = versions[n]
    final = soa_rec(sn)
    glue = [("OUT", "A", 300, "10.9.9.9")] if rng.random() < 0.25 else []
    if style == "axfr" or style == "axfr_style":
        body = list(rn) + glue
        rng.shuffle(body)
        if style == "axfr_style" and body and body[0][0] == "OUT" and len(body) > 1:
            body[0], body[-1] = body[-1], body[0]
        return [final] + body + [final]
    if style == "uptodate":
        return [soa_rec(versions[k][0])]
    if style == "usetcp":
        return [final]
    # ixfr chain from k to n
    out = [final]
    for i in range(k, n):
        si, ri = versions[i]
        sj, rj = versions[i + 1]
        dels = [r for r in ri if r not in set(rj)]
        adds = [r for r in rj if r not in set(ri)]
        rng.shuffle(dels)
        rng.shuffle(adds)
        out += [soa_rec(si)] + dels + [soa_rec(sj)] + adds + glue
    out.append(final)
    return out


FAULTS = ["none", "none", "none", "none", "none", "drop", "dup", "swap", "truncate", "serial", "owner", "type", "rcode", "question_name", "question_type", "surplus", "second_stream", "ttl", "soa_field", "soa_field"]


def gen_case(seed, tier):
    rng = sub_rng(seed, "workload")
    nver = rng.choice([1, 2, 3, 4, 5])
    versions = gen_chain(rng, nver)
    n = nver - 1
    style = rng.choice(["axfr", "axfr", "ixfr", "ixfr", "ixfr", "axfr_style", "uptodate", "udp_ixfr", "usetcp"])
    if n == 0 and style in ("ixfr", "udp_ixfr", "usetcp", "axfr_style"):
        style = rng.choice(["axfr", "uptodate"])
    k = n if style == "uptodate" else (rng.randrange(0, n) if n > 0 else 0)
    if style == "axfr":
        k = rng.randrange(0, n + 1)
    boundary = None
    if n > 0 and k < n and rng.random() < 0.12:
        # the server's serial sits at a boundary of RFC 1982 arithmetic relative to ours: the largest
        # legal step forward (must be applied), or behind us by 1 .. 2**31 - 1 (must be refused)
        d = rng.choice([2**31 - 1, 2**31 - 2, -1, -3, -(2**31 - 1), -(2**31 - 2), -(2**31 - 1), 2**31 - 1])
        new = (versions[k][0] + d) % 2**32
        if all(new != sv for sv, _ in versions):
            versions[n] = (new, versions[n][1])
            boundary = d
    stream = build_stream(rng, versions, k, "ixfr" if style == "udp_ixfr" else style)
    # cuts
    L = len(stream)
    mode = rng.choice(["one", "all_single", "random", "random", "pair", "before_final"])
    if style in ("udp_ixfr", "usetcp", "uptodate"):
        cuts = []
    elif mode == "one":
        cuts = []
    elif mode == "all_single":
        cuts = list(range(1, L))
    elif mode == "pair":
        # between the two SOAs of a diff if there is one
        idx = [i for i in range(1, L - 1) if stream[i][1] == "SOA"]
        cuts = [rng.choice(idx) + 0] if idx else []
    elif mode == "before_final":
        cuts = [L - 1] if L > 1 else []
    else:
        cuts = sorted(set(rng.randrange(1, L) for _ in range(rng.choice([1, 2, 4])))) if L > 1 else []
    fault = rng.choice(FAULTS)
    fpos = rng.randrange(0, max(1, L))
    if fault == "dup" and style == "ixfr" and L > 3 and stream[2][1] != "SOA" and rng.random() < 0.5:
        # template: a deletion record sent twice, both copies at the head of the second message (no SOA
        # before them in that message)
        ndel = 0
        while 2 + ndel < L and stream[2 + ndel][1] != "SOA":
            ndel += 1
        fpos = 2 + rng.randrange(ndel)
        cuts = [2]
    case = {
        "prop": PROP,
        "seed": seed,
        "tier": "msg",
        "versions": [[s, [list(r) for r in recs]] for s, recs in versions],
        "k": k,
        "style": style,
        "stream": [list(r) for r in stream],
        "cuts": cuts,
        "fault": {"k": fault, "pos": fpos, "arg": rng.randrange(1000)},
        "kind": rng.choice(Z.KINDS),
        "relativize": rng.random() < 0.5,
        "with_question": rng.random() < 0.7,
        "base_serial_lie": rng.random() < 0.05,
        "serial_boundary": boundary,
        "btree_t": rng.choice([3, 3, 4, 127]),
    }
    if rng.random() < 0.3:
        from checks import c13net

        case["base_serial_lie"] = False
        c13net.add_net_params(case, rng)
    return case


# ---------------------------------------------------------------------------
# applying the fault to the message list


def make_messages(case):
    """Returns list of dict(rcode, question, records) after cutting and fault injection, plus info."""
    stream = [tuple(r) for r in case["stream"]]
    cuts = [c for c in case["cuts"] if 0 < c < len(stream)]
    f = case["fault"]
    k = f["k"]
    pos = f["pos"] % max(1, len(stream))
    info = {"fired": None, "pos_class": None}
    qtype = "AXFR" if case["style"] == "axfr" else "IXFR"

    def pos_class(p):
        if p == 0:
            return "first_soa"
        if p == len(stream) - 1:
            return "final_soa"
        if stream[p][1] == "SOA":
            return "inner_soa"
        return "body"

    truncated = False
    if k in ("drop", "dup", "swap", "serial", "owner", "type", "ttl", "soa_field") and stream:
        info["pos_class"] = pos_class(pos)
        r = stream[pos]
        if k == "drop":
            del stream[pos]
            cuts = [c - (1 if c > pos else 0) for c in cuts]
            info["fired"] = "drop"
        elif k == "dup":
            stream.insert(pos, r)
            cuts = [c + (1 if c > pos else 0) for c in cuts]
            info["fired"] = "dup"
        elif k == "swap" and pos + 1 < len(stream):
            stream[pos], stream[pos + 1] = stream[pos + 1], stream[pos]
            info["fired"] = "swap"
        elif k == "serial":
            # corrupt the serial of the nearest SOA at/after pos
            for p in list(range(pos, len(stream))) + list(range(0, pos)):
                if stream[p][1] == "SOA":
                    parts = stream[p][3].split()
                    old = int(parts[2])
                    delta = [1, -1, 2**31, 5, -5][f["arg"] % 5]
                    parts[2] = str((old + delta) % 2**32)
                    stream[p] = (stream[p][0], "SOA", stream[p][2], " ".join(parts))
                    info["fired"] = "serial"
                    info["pos_class"] = pos_class(p)
                    break
        elif k == "soa_field":
            # same serial, another field of the SOA differs (MINIMUM, REFRESH or MNAME): for the final SOA
            # this is no longer the record that opened the transfer, so the transfer is not complete
            order = list(range(len(stream) - 1, -1, -1)) if f["arg"] % 3 else list(range(pos, len(stream))) + list(range(0, pos))
            for p in order:
                if stream[p][1] == "SOA":
                    parts = stream[p][3].split()
                    which = f["arg"] % 4
                    if which == 0:
                        parts[0] = "ns9"
                    elif which == 1:
                        parts[3] = str(int(parts[3]) + 1)
                    else:
                        parts[6] = str(int(parts[6]) + 1)
                    stream[p] = (stream[p][0], "SOA", stream[p][2], " ".join(parts))
                    info["fired"] = "soa_field"
                    info["pos_class"] = pos_class(p)
                    break
        elif k == "owner":
            stream[pos] = (["zz", "b", "OUT"][f["arg"] % 3], r[1], r[2], r[3])
            info["fired"] = "owner"
        elif k == "type" and r[1] in ("A", "TXT"):
            stream[pos] = (r[0], "TXT" if r[1] == "A" else "A", r[2], '"t1"' if r[1] == "A" else "10.0.0.9")
            info["fired"] = "type"
        elif k == "ttl" and r[1] != "SOA":
            stream[pos] = (r[0], r[1], r[2] + 7 if r[2] + 7 < 2**31 else r[2] - 7, r[3])
            info["fired"] = "ttl"
    elif k == "truncate" and len(stream) > 1:
        stream = stream[: max(1, pos)]
        cuts = [c for c in cuts if c < len(stream)]
        truncated = True
        info["fired"] = "truncate"
        info["pos_class"] = "body"
    elif k == "surplus":
        stream = stream + [("a", "A", 300, "10.0.0.77")]
        info["fired"] = "surplus"
        info["pos_class"] = "after_final"
    elif k == "second_stream":
        stream = stream + stream
        info["fired"] = "second_stream"
        info["pos_class"] = "after_final"
    # cut into messages
    msgs = []
    prev = 0
    for c in sorted(set(cuts)) + [len(stream)]:
        if c > prev:
            msgs.append({"rcode": 0, "question": ("@", qtype) if case["with_question"] else None, "records": stream[prev:c]})
            prev = c
    if not msgs:
        msgs = [{"rcode": 0, "question": ("@", qtype) if case["with_question"] else None, "records": []}]
    mi = f["arg"] % len(msgs)
    if k == "rcode":
        msgs[mi]["rcode"] = [2, 5, 9][f["arg"] % 3]
        info["fired"] = "rcode"
        info["pos_class"] = "message"
    elif k == "question_name":
        msgs[mi]["question"] = ("other", qtype)
        info["fired"] = "question_name"
        info["pos_class"] = "message"
    elif k == "question_type":
        msgs[mi]["question"] = ("@", "AXFR" if qtype == "IXFR" else "IXFR")
        info["fired"] = "question_type"
        info["pos_class"] = "message"
    return msgs, info, truncated


# ---------------------------------------------------------------------------
# the independent, deliberately naive XFR interpreter


class Reject(Exception):
    def __init__(self, reason):
        super().__init__(reason)
        self.reason = reason


def ref_xfr(b, mode, base_serial, is_udp, start_model, msgs):
    """Returns ('applied', RefZone) | ('uptodate', start) ; raises Reject(reason);
    ('incomplete', None) when the stream ends before the transfer is finished."""
    origin = b.origin
    content = None
    style = "axfr" if mode == "AXFR" else None
    first = None
    finished = False
    uptodate = False
    phase = "start"
    cur = base_serial
    N = None

    def is_soa(r):
        return r[1] == "SOA" and b.absname(r[0]) == origin

    def serial_of(r):
        return int(r[3].split()[2])

    def soa_rdata_eq(x, y):
        return x[3].split() == y[3].split()

    def put(model, r, replace=False):
        t = r[1]
        name = b.absname(r[0])
        if name is None:
            return  # out of zone: ignored
        rdtype, covers = Z.split_type(t)
        try:
            model.add(name, int(rdtype), int(covers), r[2], [b.rid_of(t, r[3])], replace=replace)
        except ModelError as e:
            raise Reject("record-not-storable:" + e.name)

    def remove_exact(model, r):
        name = b.absname(r[0])
        if name is None:
            return
        rdtype, covers = Z.split_type(r[1])
        ex = model.get(name, int(rdtype), int(covers))
        rid = b.rid_of(r[1], r[3])
        if ex is None or rid not in ex[1]:
            raise Reject("delete-of-missing-record")
        model.delete_rdatas(name, int(rdtype), int(covers), [rid], exact=True)

    for mi, m in enumerate(msgs):
        if m["rcode"] != 0:
            raise Reject("rcode")
        if m["question"] is not None:
            if b.absname(m["question"][0]) != origin or m["question"][1] != mode:
                raise Reject("question")
        recs = list(m["records"])
        if first is None:
            if not recs or not is_soa(recs[0]):
                raise Reject("first-record-not-origin-soa")
            first = recs[0]
            N = serial_of(first)
            recs = recs[1:]
            if mode == "IXFR":
                if N == base_serial:
                    finished = True
                    uptodate = True
                elif serial_lt(N, base_serial):
                    raise Reject("serial-went-backwards")
                elif is_udp and not recs:
                    raise Reject("use-tcp")
            else:
                content = RefZone(origin)
        for r in recs:
            if finished:
                raise Reject("records-after-final-soa")
            if style is None:
                if is_soa(r):
                    style = "ixfr"
                    content = start_model.copy()
                else:
                    style = "axfr"
                    content = RefZone(origin)
            if style == "axfr":
                if is_soa(r):
                    if soa_rdata_eq(r, first):
                        put(content, r, replace=True)
                        finished = True
                    else:
                        raise Reject("unexpected-origin-soa-in-axfr")
                else:
                    put(content, r)
            else:
                if is_soa(r):
                    if phase in ("start", "add"):
                        if soa_rdata_eq(r, first):
                            if phase == "start":
                                raise Reject("empty-ixfr-sequence")
                            if cur != N:
                                raise Reject("unexpected-end-of-ixfr")
                            put(content, r, replace=True)
                            finished = True
                        else:
                            if serial_of(r) != cur:
                                raise Reject("ixfr-base-serial-mismatch")
                            phase = "del"
                    else:
                        cur = serial_of(r)
                        put(content, r, replace=True)
                        phase = "add"
                else:
                    if phase == "del":
                        remove_exact(content, r)
                    elif phase == "add":
                        put(content, r)
                    else:
                        raise Reject("ixfr-structure")
        if is_udp and not finished:
            raise Reject("udp-ixfr-incomplete")
        if finished:
            break  # the receiver stops reading: later messages are never looked at
    if not finished:
        return ("incomplete", None)
    if uptodate:
        return ("uptodate", start_model)
    return ("applied", content)


# ---------------------------------------------------------------------------
# real side


def render_messages(b, msgs, qid=4321):
    """Render every message with the real codec and parse it back the way _inbound_xfr does."""
    dns = _d
    out = []
    for m in msgs:
        msg = dns.message.Message(id=qid)
        msg.flags |= dns.flags.QR | dns.flags.AA
        msg.set_rcode(m["rcode"])
        if m["question"] is not None:
            qn = dns.name.from_text(m["question"][0], b.origin) if m["question"][0] != "@" else b.origin
            msg.question.append(dns.rrset.RRset(qn, dns.rdataclass.IN, dns.rdatatype.from_text(m["question"][1])))
        for r in m["records"]:
            name = dns.name.from_text("www.other.") if r[0] == "OUT" else (b.origin if r[0] == "@" else dns.name.from_text(r[0], b.origin))
            rdtype, covers = Z.split_type(r[1])
            rd = dns.rdata.from_text(dns.rdataclass.IN, rdtype, r[3], origin=b.origin, relativize=False)
            rrset = dns.rrset.RRset(name, dns.rdataclass.IN, rdtype, covers)
            rrset.add(rd, r[2])
            msg.answer.append(rrset)
        out.append(msg.to_wire(max_size=65535))
    return out


def secondary_at(b, versions, k):
    """Load the secondary (bench + model) with version k."""
    serial, recs = versions[k]
    ops = [{"o": "add", "n": "@", "nf": "rel", "f": "rdataset", "t": "SOA", "ttl": 300, "rd": [soa_rec(serial)[3]]}]
    for r in recs:
        ops.append({"o": "add", "n": r[0], "nf": "rel", "f": "rdataset", "t": r[1], "ttl": r[2], "rd": [r[3]]})
    return Z.load_bench(b, ops)


def model_of_version(b, versions, n):
    serial, recs = versions[n]
    m = RefZone(b.origin)
    m.add(b.origin, 6, 0, 300, [b.rid_of("SOA", soa_rec(serial)[3])])
    for r in recs:
        rdtype, covers = Z.split_type(r[1])
        m.add(b.absname(r[0]), int(rdtype), int(covers), r[2], [b.rid_of(r[1], r[3])])
    return m


def _snapshot_everything(b):
    return (b.snap_nodes(), {name: id(node) for name, node in b.zone.nodes.items()})


def _run_msg(case, res, log):
    dns = _d
    versions = [(s, [tuple(r) for r in recs]) for s, recs in case["versions"]]
    b = Z.Bench(case["kind"], case["relativize"])
    start_model = secondary_at(b, versions, case["k"])
    style = case["style"]
    mode = "AXFR" if style == "axfr" else "IXFR"
    is_udp = style in ("udp_ixfr", "usetcp")
    base_serial = versions[case["k"]][0]
    if case.get("base_serial_lie") and mode == "IXFR":
        base_serial = (base_serial + 3) % 2**32
    msgs, info, truncated = make_messages(case)
    # reference verdict on the faulted stream
    try:
        verdict = ref_xfr(b, mode, base_serial, is_udp, start_model, msgs)
    except Reject as e:
        verdict = ("reject", e.reason)
    wires = render_messages(b, msgs)
    # make_query / extract_serial_from_query agree with the zone and with each other
    try:
        zq, zs = dns.xfr.make_query(b.zone)  # serial taken from the zone
        want_serial = versions[case["k"]][0]
        if zs != want_serial or dns.xfr.extract_serial_from_query(zq) != want_serial or zq.question[0].rdtype != dns.rdatatype.IXFR:
            raise Violation("C13:make-query", f"make_query(zone) -> serial {zs}, zone is at {want_serial}")
        if want_serial != 0:
            eq, es = dns.xfr.make_query(b.zone, serial=want_serial)
            if es != want_serial or dns.xfr.extract_serial_from_query(eq) != want_serial:
                raise Violation("C13:make-query", f"make_query(zone, serial={want_serial}) -> {es}")
        aq, as_ = dns.xfr.make_query(b.zone, serial=None)
        if as_ is not None or dns.xfr.extract_serial_from_query(aq) is not None or aq.question[0].rdtype != dns.rdatatype.AXFR:
            raise Violation("C13:make-query", "make_query(serial=None) is not an AXFR query")
    except (ValueError, KeyError) as e:
        raise Violation("C13:make-query", f"make_query / extract_serial_from_query raised {type(e).__name__}: {e} for a zone at serial {versions[case['k']][0]}")
    before, before_ids = _snapshot_everything(b)
    origin = b.zone.from_wire_origin()
    rdtype = dns.rdatatype.AXFR if mode == "AXFR" else dns.rdatatype.IXFR
    exc = None
    done = False
    try:
        with dns.xfr.Inbound(b.zone, rdtype, base_serial if mode == "IXFR" else None, is_udp) as inbound:
            for w in wires:
                m = dns.message.from_wire(w, xfr=True, origin=origin, one_rr_per_rrset=(mode == "IXFR"))
                done = inbound.process_message(m)
                if done:
                    break
            if not done:
                # the network layer would now hit EOF / the deadline while waiting for more
                raise EOFError("stream ended before the transfer was complete")
    except Exception as e:  # noqa: BLE001
        exc = e
    after = b.snap_nodes()
    tag = f"[{case['kind']}/{'rel' if case['relativize'] else 'abs'}] style={style} k={case['k']}/{len(versions) - 1} msgs={len(msgs)} fault={info['fired']}@{info['pos_class']}"
    changed = after != before
    # law: never (exception and zone changed)
    if exc is not None and changed:
        raise Violation("C13:error-after-applied", f"{tag}: {type(exc).__name__}({exc}) was raised but the zone content changed (reference verdict {verdict})")
    if b.kind != "plain" and b.zone._write_txn is not None:
        raise Violation("C13:write-txn-left-open", f"{tag}: a write transaction is still open after the transfer context exited ({type(exc).__name__ if exc else 'no exception'})")
    if exc is not None:
        if not isinstance(exc, (dns.exception.DNSException, EOFError, KeyError, ValueError)):
            raise Violation("C13:unexpected-exception", f"{tag}: {type(exc).__name__}: {exc}")
        ident = {name: id(node) for name, node in b.zone.nodes.items()}
        if ident != before_ids:
            raise Violation("C13:error-after-applied", f"{tag}: node objects were replaced although {type(exc).__name__} was raised")
    behind = (case.get("serial_boundary") or 0) < 0 and mode == "IXFR"
    if case.get("serial_boundary"):
        res.probes.inc("server_serial_behind_ours_rfc1982" if case["serial_boundary"] < 0 else "largest_legal_serial_step_forward")
    if info["fired"] is None and not case.get("base_serial_lie") and style != "usetcp" and not behind:
        # a valid stream must be applied and reach the server's target version
        if exc is not None:
            raise Violation("C13:valid-stream-rejected", f"{tag}: valid stream raised {type(exc).__name__}: {exc}")
        if style in ("uptodate",):
            want = start_model.snapshot()
        elif style == "usetcp":
            want = None
        else:
            want = model_of_version(b, versions, len(versions) - 1).snapshot()
        if want is not None:
            Z.compare("C13:did-not-converge", b, after, want, f"{tag}: after a valid transfer")
        if verdict[0] not in ("applied", "uptodate"):
            raise Violation("C13:reference-disagrees", f"{tag}: the reference interpreter rejects a stream the generator considers valid: {verdict}")
        if verdict[0] == "applied" and verdict[1].snapshot() != want:
            raise Violation("C13:reference-disagrees", f"{tag}: reference interpreter content differs from the server's target version")
    if verdict[0] == "reject" or verdict[0] == "incomplete":
        if exc is None:
            raise Violation("C13:bad-stream-accepted", f"{tag}: stream must be rejected ({verdict[1] or 'ends early'}) but no error was raised; zone changed={changed}")
        res.probes.inc("fault_rejected_zone_unchanged")
    elif exc is None:
        want = verdict[1].snapshot()
        Z.compare("C13:applied-content-differs", b, after, want, f"{tag}: transfer reported success")
        if info["fired"] is not None:
            res.probes.inc("fault_benign_applied")
    # follow-up: the zone is still usable (a writer is admitted at once)
    with b.zone.writer() as txn:
        pass
    # follow-up 2: nothing of a failed attempt survives into the next one -- the unfaulted
    # stream of the same chain must now converge to the server's target version
    if exc is not None and info["fired"] is not None and style in ("axfr", "ixfr", "axfr_style") and not case.get("base_serial_lie") and not behind:
        clean = dict(case)
        clean["fault"] = {"k": "none", "pos": 0, "arg": 0}
        cmsgs, _, _ = make_messages(clean)
        cw = render_messages(b, cmsgs)
        try:
            with dns.xfr.Inbound(b.zone, rdtype, base_serial if mode == "IXFR" else None, False) as inbound2:
                for w in cw:
                    m2 = dns.message.from_wire(w, xfr=True, origin=origin, one_rr_per_rrset=(mode == "IXFR"))
                    if inbound2.process_message(m2):
                        break
        except Exception as e2:  # noqa: BLE001
            raise Violation("C13:retry-after-failure", f"{tag}: after the failed attempt a valid transfer of the same chain raised {type(e2).__name__}: {e2}")
        want2 = model_of_version(b, versions, len(versions) - 1).snapshot()
        Z.compare("C13:retry-after-failure", b, b.snap_nodes(), want2, f"{tag}: valid transfer after a failed attempt")
        res.probes.inc("valid_retry_after_failed_attempt")
    # probes
    if versions[case["k"]][0] == 0 and mode == "IXFR":
        res.probes.inc("secondary_at_serial_zero")
    if info["fired"] is None:
        if any(r[0] == "OUT" for r in case["stream"]):
            res.probes.inc("out_of_zone_glue_in_valid_stream")
        if style == "axfr":
            res.probes.inc("valid_axfr")
        if style == "ixfr" and len(versions) - 1 - case["k"] >= 3:
            res.probes.inc("valid_ixfr_chain_3plus")
        if style == "axfr_style":
            res.probes.inc("axfr_style_answer_to_ixfr")
        if style == "uptodate":
            res.probes.inc("up_to_date")
        if style == "udp_ixfr":
            res.probes.inc("udp_ixfr_complete")
    if style == "usetcp":
        res.probes.inc("udp_use_tcp")
    stream = case["stream"]
    for c in case["cuts"]:
        if 0 < c < len(stream) - 1 and stream[c][1] == "SOA" and stream[c - 1][1] != "SOA" and 0 < c:
            pass
        if 0 < c < len(stream) and stream[c][1] == "SOA" and c < len(stream) - 1:
            res.probes.inc("cut_between_soa_pair")
        if c == len(stream) - 1:
            res.probes.inc("cut_before_final_soa")
    if case["cuts"] == list(range(1, len(stream))) and len(stream) > 2:
        res.probes.inc("one_record_per_message")
    ss = [s for s, _ in versions]
    if any(b2 < a for a, b2 in zip(ss, ss[1:])):
        res.probes.inc("serial_wrap")
    if info["fired"] == "surplus" and len(msgs) >= 1:
        res.probes.inc("surplus_after_final_soa_same_message")
    if info["fired"]:
        res.faults.inc("stream_" + info["fired"])
    outcome = "exc:" + type(exc).__name__ if exc else "ok"
    log.add(style, case["k"], len(versions), len(msgs), info["fired"], info["pos_class"], outcome, verdict[0], Z.stable_hash(after))
    res.nontrivial = info["fired"] is not None or (len(msgs) >= 2 and len(versions) - 1 - case["k"] >= 2)
    res.state(style, info["fired"], info["pos_class"], outcome, verdict[0])
    res.steps = len(msgs)


def run_case(case, keep_log=False):
    res = RunResult()
    log = EventLog(keep=keep_log)
    if Z.set_btree_branching(case.get("btree_t")) < 127:
        res.faults.inc("btree_branching_factor_lowered")
    try:
        if case["tier"] == "msg":
            _run_msg(case, res, log)
        else:
            from checks import c13net

            c13net.run_net(case, res, log)
    except Violation as v:
        res.violation = (v.cls if ":" in v.cls else "C13:" + v.cls, v.detail)
    res.digest = log.digest()
    if keep_log:
        res.extra["log"] = log.lines
    return res


def shrink(case):
    if case["cuts"]:
        c = copy.deepcopy(case)
        c["cuts"] = []
        yield c
        for i in range(len(case["cuts"])):
            c = copy.deepcopy(case)
            del c["cuts"][i]
            yield c
    # fewer body records in the stream (keeps SOAs); only for faulted streams, a valid
    # stream must stay the stream of its version chain
    for i, r in enumerate(case["stream"]):
        if r[1] != "SOA" and case["fault"]["k"] != "none":
            c = copy.deepcopy(case)
            del c["stream"][i]
            c["cuts"] = [x - (1 if x > i else 0) for x in c["cuts"]]
            if c["fault"]["pos"] > i:
                c["fault"]["pos"] -= 1
            yield c
    for key, simple in (("kind", "plain"), ("relativize", True), ("with_question", False)):
        if case[key] != simple:
            c = copy.deepcopy(case)
            c[key] = simple
            yield c


def known_match(finding, case, violation):
    return False
