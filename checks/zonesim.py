"""zonesim -- shared harness for C10 / C11 / C20: abstract (JSON) zone operations,
their execution against real zones of every kind, and against the reference model.
"""

from simkit import refzone
from simkit.core import Violation
from simkit.refzone import ModelError, RefZone

ORIGIN = "example."
KINDS = ["plain", "versioned", "btree"]
CONFIGS = [(k, r) for k in KINDS for r in (True, False)]

# owner-name pool (relative to the origin); special: OUT (not in the zone), LONG (too long
# once made absolute)
FIT = ".".join(["f" * 63] * 3 + ["f" * 53])  # 246 octets relative: exactly 255 with the origin, the longest legal name
OVER = ".".join(["f" * 63] * 3 + ["f" * 54])  # 247 octets relative: 256 with the origin, one octet too long
NAMES = ["@", "a", "b", "a.b", "c.a.b", "*", "*.a", "x" * 63, "d.c.a.b", "ns1", FIT]
OUT = "www.other."
LONG = ".".join(["l" * 61] * 4)  # 248 octets relative, 257 > 255 with the origin

RDATA = {
    "A": ["10.0.0.1", "10.0.0.2", "10.0.0.3", "10.0.0.4"],
    "AAAA": ["2001:db8::1", "2001:db8::2"],
    "TXT": ['"t1"', '"t2"', '"t three"'],
    "MX": ["10 mail", "20 mail2.example.", "10 a.b"],
    "NS": ["ns1", "ns2.example.", "ns.other."],
    "CNAME": ["tgt1", "tgt2.example."],
    "DNAME": ["d1", "d2.other."],
    "SOA": [
        "ns1 hostmaster 1 7200 900 1209600 300",
        "ns1 hostmaster 2147483647 7200 900 1209600 300",
        "ns1 hostmaster 4294967295 7200 900 1209600 300",
        "ns2 hostmaster 5 7200 900 1209600 60",
        "ns1 hostmaster 0 7200 900 1209600 300",
    ],
    "NSEC": ["a A NS", "b.example. A TXT"],
    "RRSIG:A": [
        "A 8 2 300 20300101000000 20200101000000 12345 @ c2ln",
        "A 8 2 300 20300101000000 20200101000000 54321 @ c2ln",
    ],
    "RRSIG:CNAME": ["CNAME 8 2 300 20300101000000 20200101000000 12345 @ c2ln"],
    "RRSIG:NSEC": ["NSEC 8 2 300 20300101000000 20200101000000 12345 @ c2ln"],
    "RRSIG:NS": ["NS 8 2 300 20300101000000 20200101000000 12345 @ c2ln"],
    # the older SIG type also carries a covered type (two SIG rdatasets at one owner are told apart by it)
    "SIG:A": ["A 8 2 300 20300101000000 20200101000000 12345 @ c2ln"],
    "SIG:MX": ["MX 8 2 300 20300101000000 20200101000000 12345 @ c2ln"],
    # the other types with a special standing next to a CNAME: KEY and NSEC3 are "neutral" (may coexist with a
    # CNAME and with anything else), DNSKEY is an ordinary type (displaced by / displaces a CNAME); same for
    # the signatures covering them
    "KEY": ["256 3 8 AQID", "257 3 8 BAUG"],
    "DNSKEY": ["256 3 8 AQID", "257 3 8 BAUG"],
    "NSEC3": ["1 0 10 ABCD 2T7B4G4VSA5SMI47K61MV5BV1A22BOJR A RRSIG", "1 1 5 - 2T7B4G4VSA5SMI47K61MV5BV1A22BOJR"],
    "RRSIG:KEY": ["KEY 8 2 300 20300101000000 20200101000000 12345 @ c2ln"],
    "RRSIG:DNSKEY": ["DNSKEY 8 2 300 20300101000000 20200101000000 12345 @ c2ln"],
}
TYPES = list(RDATA)
TTLS = [0, 1, 300, 300, 3600, 2**31 - 1, 2**32 - 1]

_dns = None


def setup_dns():
    global _dns
    import dns
    import dns.name
    import dns.rdata
    import dns.rdataset
    import dns.rrset
    import dns.rdatatype
    import dns.rdataclass
    import dns.zone
    import dns.versioned
    import dns.btreezone
    import dns.transaction
    import dns.exception

    _dns = dns


def split_type(t):
    import dns.rdatatype

    if ":" in t:
        a, b = t.split(":")
        return dns.rdatatype.from_text(a), dns.rdatatype.from_text(b)
    return dns.rdatatype.from_text(t), dns.rdatatype.NONE


def set_btree_branching(t):
    """Tuning knob owned by the simulator: the branching factor new B-trees get by default
    (dns.btree.DEFAULT_T = 127 keeps every test-sized zone inside one root leaf, so that splits,
    merges and copy-on-write of inner nodes never run below a zone).  Nothing in /repo is changed:
    the keyword default of the three constructors is rebound, per run."""
    import dns.btree

    t = int(t or 127)
    for cls in (dns.btree.BTree, dns.btree.BTreeDict, dns.btree.BTreeSet):
        cls.__init__.__kwdefaults__["t"] = t
    return t


def raised_in_repo(e):
    """True when the innermost frame of the exception's traceback is code of the dns package
    (an exception of the code under test, not of the harness)."""
    import os

    tb = e.__traceback__
    last = None
    while tb is not None:
        last = tb
        tb = tb.tb_next
    if last is None:
        return False
    fn = last.tb_frame.f_code.co_filename
    return (os.sep + "dns" + os.sep) in fn and (os.sep + "checks" + os.sep) not in fn and (os.sep + "simkit" + os.sep) not in fn


def first_violation_in_context(e):
    """An exception raised while a Violation was propagating (e.g. by a `with` block's exit)
    carries it as context: the Violation is the report."""
    from simkit.core import Violation

    c = e.__context__
    seen = 0
    while c is not None and seen < 20:
        if isinstance(c, Violation):
            return c
        c = c.__context__
        seen += 1
    return None


class Bench:
    """One real zone of a given kind/relativize setting plus argument builders."""

    def __init__(self, kind, relativize, pruning_policy=None, zone=None, rdclass="IN"):
        dns = _dns
        self.kind = kind
        self.relativize = relativize
        self.rdclass = rdclass
        self.origin = dns.name.from_text(ORIGIN)
        rc = dns.rdataclass.from_text(rdclass)
        if zone is not None:
            self.zone = zone
        elif kind == "plain":
            self.zone = dns.zone.Zone(self.origin, rc, relativize=relativize)
        elif kind == "versioned":
            self.zone = dns.versioned.Zone(self.origin, rc, relativize=relativize, pruning_policy=pruning_policy)
        else:
            self.zone = dns.btreezone.Zone(self.origin, rc, relativize=relativize, pruning_policy=pruning_policy)
        self._rd_cache = {}
        self._rid_cache = {}
        self.handed_in = []  # rdataset / rrset objects the client passed to transactions

    # ---- names ----
    def absname(self, spec):
        """Model key, or None when the name is not usable in this zone."""
        dns = _dns
        if spec in ("OUT", "LONG", "OVER"):
            return None
        if spec == "@":
            return self.origin
        return dns.name.from_text(spec, self.origin)

    def name_arg(self, spec, form):
        dns = _dns
        if spec == "OUT":
            n = dns.name.from_text(OUT)
            return OUT if form.startswith("str") else n
        if spec == "LONG":
            return LONG if form.startswith("str") else dns.name.from_text(LONG, None)
        if spec == "OVER":
            return OVER if form.startswith("str") else dns.name.from_text(OVER, None)
        if form == "str_rel":
            return spec
        if form == "str_abs":
            return ORIGIN if spec == "@" else spec + "." + ORIGIN
        if form == "rel":
            return dns.name.empty if spec == "@" else dns.name.from_text(spec, None)
        if form == "rel_upper":
            # names compare case-insensitively: another spelling of the same owner
            return dns.name.empty if spec == "@" else dns.name.from_text(spec.upper(), None)
        if form == "abs_upper":
            return dns.name.from_text((ORIGIN if spec == "@" else spec + "." + ORIGIN).upper())
        return self.absname(spec)

    def name_obj(self, spec, form):
        n = self.name_arg(spec, form)
        if isinstance(n, str):
            n = _dns.name.from_text(n, None)
        return n

    # ---- rdata ----
    def rdata(self, t, text, rdclass=None):
        rdclass = rdclass or self.rdclass
        key = (t, text, rdclass)
        rd = self._rd_cache.get(key)
        if rd is None:
            dns = _dns
            rdtype, _ = split_type(t)
            rd = dns.rdata.from_text(
                dns.rdataclass.from_text(rdclass), rdtype, text, origin=self.origin, relativize=self.relativize
            )
            self._rd_cache[key] = rd
        return rd

    def rid(self, rd):
        # keyed by object identity (the object is kept alive in the cache):
        # hashing an rdata re-renders it every time
        ent = self._rid_cache.get(id(rd))
        if ent is None:
            ent = (rd, (int(rd.rdtype), rd.to_digestable(self.origin)))
            self._rid_cache[id(rd)] = ent
        return ent[1]

    def rid_of(self, t, text):
        return self.rid(self.rdata(t, text))

    def rdataset(self, t, ttl, texts, rdclass=None):
        dns = _dns
        rds = dns.rdataset.from_rdata_list(ttl, [self.rdata(t, x, rdclass) for x in texts])
        if len(self.handed_in) < 200:
            self.handed_in.append(rds)
        return rds

    def scribble_on_handed_in(self):
        """The client keeps using (and mutating) the objects it passed in earlier; whatever the
        zone stored must not be aliased to them."""
        if self.kind == "plain":
            # a plain dns.zone.Zone takes ownership of the rdataset objects it is given
            # (documented for Node.replace_rdataset), so aliasing is by design there
            self.handed_in = []
            return 0
        evil = self.rdata("A", "10.6.6.6")
        evil_txt = self.rdata("TXT", '"scribble"')
        n = 0
        for obj in self.handed_in:
            for fn in (lambda: obj.add(evil if obj.rdtype == 1 else evil_txt), lambda: obj.update_ttl(0), lambda: obj.clear()):
                try:
                    fn()
                    n += 1
                except Exception:  # noqa: BLE001
                    pass
        self.handed_in = []
        return n

    # ---- content extraction in model form ----
    def to_abs(self, name):
        if name.is_absolute():
            return name
        return name.derelativize(self.origin)

    def snap_items(self, items):
        out = set()
        for name, rds in items:
            out.add(
                (
                    self.to_abs(name),
                    (int(rds.rdtype), int(rds.covers)),
                    rds.ttl,
                    frozenset(self.rid(rd) for rd in rds),
                )
            )
        return frozenset(out)

    def snap_txn(self, txn):
        return self.snap_items(txn.iterate_rdatasets())

    def snap_nodes(self, nodes=None):
        if nodes is None:
            nodes = self.zone.nodes
        return self.snap_items((name, rds) for name, node in nodes.items() for rds in node)

    def snap_zone_api(self):
        return self.snap_items(self.zone.iterate_rdatasets())


COMMIT_FAULT = {"armed": False, "fired": 0}


def install_commit_fault():
    """Fault point: building the immutable version at commit fails (allocation failure)."""
    dns = _dns
    for cls in (dns.zone.ImmutableVersion, dns.btreezone.ImmutableVersion):
        if getattr(cls, "_verif_commit_fault", False):
            continue
        orig = cls.__init__

        def init(self, *a, _orig=orig, **kw):
            if COMMIT_FAULT["armed"]:
                COMMIT_FAULT["armed"] = False
                COMMIT_FAULT["fired"] += 1
                raise MemoryError("injected allocation failure while building the immutable version at commit")
            return _orig(self, *a, **kw)

        cls.__init__ = init
        cls._verif_commit_fault = True


class Planned(Exception):
    """Exception injected by the simulator (abort point / hook fault)."""


class PlannedBase(BaseException):
    """The same, but not an Exception subclass (what KeyboardInterrupt, SystemExit,
    GeneratorExit or asyncio.CancelledError look like to a `with` block)."""


# ---------------------------------------------------------------------------
# abstract operations


def apply_real(b, txn, op):
    """Execute one abstract op against a real transaction."""
    dns = _dns
    o = op["o"]
    if o in ("add", "replace"):
        fn = txn.add if o == "add" else txn.replace
        t = op["t"]
        rdclass = op.get("cls", b.rdclass)
        f = op["f"]
        # (a surplus trailing argument, e.g. a second rdata: documented to be refused)
        extra = (b.rdata(t, op["rd"][-1], rdclass),) if op.get("extra") else ()
        if f == "rrset":
            rds = b.rdataset(t, op["ttl"], op["rd"], rdclass)
            rrset = dns.rrset.from_rdata_list(b.name_obj(op["n"], op["nf"]), op["ttl"], list(rds))
            if len(b.handed_in) < 200:
                b.handed_in.append(rrset)
            return fn(rrset, *extra)
        name = b.name_arg(op["n"], op["nf"])
        if f == "rdataset":
            return fn(name, b.rdataset(t, op["ttl"], op["rd"], rdclass), *extra)
        return fn(name, op["ttl"], b.rdata(t, op["rd"][0], rdclass), *extra)
    if o == "delete":
        fn = txn.delete_exact if op.get("exact") else txn.delete
        f = op["f"]
        extra = (1,) if op.get("extra") and f != "name" else ()
        if f == "rrset":
            rds = b.rdataset(op["t"], 0, op["rd"])
            rrset = dns.rrset.from_rdata_list(b.name_obj(op["n"], op["nf"]), 0, list(rds))
            return fn(rrset, *extra)
        name = b.name_arg(op["n"], op["nf"])
        if f == "name":
            return fn(name)
        if f == "type":
            rdtype, covers = split_type(op["t"])
            if covers != dns.rdatatype.NONE or extra:
                return fn(name, rdtype, covers, *extra)
            if op.get("tstr"):
                return fn(name, dns.rdatatype.to_text(rdtype))
            return fn(name, rdtype)
        if f == "rdataset":
            return fn(name, b.rdataset(op["t"], op.get("ttl", 0), op["rd"]), *extra)
        return fn(name, b.rdata(op["t"], op["rd"][0]), *extra)
    if o == "serial":
        kw = {}
        if "n" in op:
            kw["name"] = b.name_arg(op["n"], op["nf"])
        return txn.update_serial(op["v"], op["rel"], **kw)
    raise ValueError(o)


def _soa_serial(b):
    def get_serial(rid):
        # the serial is the 5th-from-last 32-bit field of the SOA wire form
        return int.from_bytes(rid[1][-20:-16], "big")

    def with_serial(rid, new):
        w = rid[1]
        return (rid[0], w[:-20] + new.to_bytes(4, "big") + w[-16:])

    return get_serial, with_serial


def apply_model(b, m, op):
    o = op["o"]
    if o == "serial":
        spec = op.get("n", "@")
    else:
        spec = op["n"]
    name = b.absname(spec)
    if o in ("add", "replace"):
        if op.get("cls", b.rdclass) != b.rdclass:
            raise ModelError("ValueError")
        if op["f"] == "rdata" and op["ttl"] > refzone.MAX_TTL:
            raise ModelError("ValueError")
        rdtype, covers = split_type(op["t"])
        if int(rdtype) == refzone.SOA and name != b.origin:
            # also for unusable names: the SOA rule is checked on the owner as given
            raise ModelError("ValueError")
        if op.get("extra"):
            raise ModelError("TypeError")  # surplus arguments are refused, nothing is stored
        if name is None:
            raise ModelError("KeyError")
        rids = [b.rid_of(op["t"], x) for x in op["rd"]]
        return m.add(name, int(rdtype), int(covers), op["ttl"], rids, replace=(o == "replace"))
    if o == "delete":
        if op.get("extra") and op["f"] != "name":
            raise ModelError("TypeError")
        if name is None:
            raise ModelError("KeyError")
        exact = bool(op.get("exact"))
        f = op["f"]
        if f == "name":
            return m.delete_name(name, exact)
        rdtype, covers = split_type(op["t"])
        if f == "type":
            return m.delete_rdataset(name, int(rdtype), int(covers), exact)
        rids = [b.rid_of(op["t"], x) for x in op["rd"]]
        if int(rdtype) in refzone.SINGLETONS:
            rids = rids[-1:]  # an rdataset object of a singleton type holds one record
        return m.delete_rdatas(name, int(rdtype), int(covers), rids, exact)
    if o == "serial":
        if op["v"] < 0:
            raise ModelError("ValueError")
        if name is None:
            raise ModelError("KeyError")
        g, w = _soa_serial(b)
        return m.soa_serial_update(name, op["v"], op["rel"], g, w)
    raise ValueError(o)


def is_mutator(op):
    return op["o"] in ("add", "replace", "delete", "serial")


# ---------------------------------------------------------------------------
# generation


def gen_name(rng, allow_bad=True, names=None):
    r = rng.random()
    if allow_bad and r < 0.03:
        return "OUT", rng.choice(["abs", "str_abs"])
    if allow_bad and r < 0.05:
        return rng.choice(["LONG", "OVER", "OVER"]), rng.choice(["rel", "str_rel"])
    n = rng.choice(names or NAMES)
    return n, rng.choice(["rel", "abs", "str_rel", "str_abs", "rel", "abs", "rel_upper", "abs_upper"])


def gen_put(rng, o=None, names=None, types=None, allow_bad=True):
    o = o or rng.choice(["add", "add", "replace"])
    t = rng.choice(types or TYPES)
    n, nf = gen_name(rng, allow_bad, names)
    if t == "SOA" and rng.random() < 0.85:
        n = "@"
    f = rng.choice(["rrset", "rdataset", "rdata"])
    k = 1 if f == "rdata" else rng.choice([1, 1, 2, 3])
    rd = [rng.choice(RDATA[t]) for _ in range(k)]
    rd = list(dict.fromkeys(rd))
    op = {"o": o, "n": n, "nf": nf, "f": f, "t": t, "ttl": rng.choice(TTLS), "rd": rd}
    if allow_bad:
        r = rng.random()
        if r < 0.02:
            op["cls"] = "CH"
            op["t"] = "TXT"
            op["rd"] = ['"t1"']
        elif r < 0.04 and f == "rdata":
            op["ttl"] = 2**32
        elif r < 0.08:
            op["extra"] = True
    return op


def gen_delete(rng, names=None, types=None, allow_bad=True):
    n, nf = gen_name(rng, allow_bad, names)
    f = rng.choice(["name", "type", "type", "rrset", "rdataset", "rdata", "rdata"])
    op = {"o": "delete", "n": n, "nf": nf, "f": f, "exact": rng.random() < 0.4}
    if f != "name":
        t = rng.choice(types or TYPES)
        op["t"] = t
        if f == "type":
            op["tstr"] = rng.random() < 0.5
        else:
            k = 1 if f == "rdata" else rng.choice([1, 1, 2, 3])
            op["rd"] = list(dict.fromkeys(rng.choice(RDATA[t]) for _ in range(k)))
        if allow_bad and rng.random() < 0.03:
            op["extra"] = True
    return op


def gen_serial(rng):
    v = rng.choice([0, 1, 1, 1, 2, 5, 2**31 - 1, 2**31, 2**32 - 1, 2**32, -1])
    op = {"o": "serial", "v": v, "rel": rng.random() < 0.7}
    r = rng.random()
    if r < 0.6:
        op["n"] = "@"
        op["nf"] = rng.choice(["rel", "abs", "str_rel", "str_abs"])
    elif r < 0.7:
        op["n"] = rng.choice(["a", "b"])
        op["nf"] = rng.choice(["rel", "abs"])
    # else: default name argument
    return op


def gen_op(rng, names=None, types=None, allow_bad=True):
    r = rng.random()
    if r < 0.5:
        return gen_put(rng, None, names, types, allow_bad)
    if r < 0.9:
        return gen_delete(rng, names, types, allow_bad)
    return gen_serial(rng)


def base_load(rng, n=8, names=None, types=None):
    """Ops of the initial (replacement) load: always an SOA and an apex NS."""
    ops = [
        {"o": "add", "n": "@", "nf": "rel", "f": "rdataset", "t": "SOA", "ttl": 300, "rd": [rng.choice(RDATA["SOA"])]},
        {"o": "add", "n": "@", "nf": "rel", "f": "rdataset", "t": "NS", "ttl": 300, "rd": ["ns1"]},
    ]
    for _ in range(n):
        op = gen_put(rng, "add", names, types, allow_bad=False)
        if op["t"] == "SOA":
            continue
        ops.append(op)
    return ops


def load_bench(b, ops, replacement=True):
    """Load a fresh bench and a fresh model with the base ops (must agree).  On an
    empty zone a replacement and an ordinary write transaction are equivalent."""
    m = RefZone(b.origin)
    try:
        with b.zone.writer(replacement) as txn:
            for op in ops:
                apply_real(b, txn, op)
                apply_model(b, m, op)
    except Exception as e:  # noqa: BLE001
        raise Violation(
            "load-failed",
            f"[{b.kind}/{'rel' if b.relativize else 'abs'}] initial load of an empty zone through writer({replacement}) raised {type(e).__name__}: {e}",
        )
    return m


def stable_hash(snapshot):
    """A hash of a content snapshot that does not depend on PYTHONHASHSEED."""
    from simkit.core import h64

    items = sorted((n.to_text().lower(), k, ttl, tuple(sorted((t, w.hex()) for t, w in rids))) for n, k, ttl, rids in snapshot)
    return h64(items) & 0xFFFFFFFF


def base_as_text(ops):
    """The initial load as master-file text that names the origin only through $ORIGIN."""
    lines = ["$ORIGIN " + ORIGIN]
    for op in ops:
        assert op["o"] == "add"
        t = op["t"].split(":")[0]
        for rd in op["rd"]:
            lines.append(f"{op['n']} {op['ttl']} IN {t} {rd}")
    return "\n".join(lines) + "\n"


def load_bench_from_text(kind, relativize, ops):
    """A zone created without an origin argument: the origin is learnt from the text."""
    dns = _dns
    factory = {"plain": dns.zone.Zone, "versioned": dns.versioned.Zone, "btree": dns.btreezone.Zone}[kind]
    try:
        z = dns.zone.from_text(base_as_text(ops), relativize=relativize, zone_factory=factory, check_origin=False)
    except Exception as e:  # noqa: BLE001
        raise Violation("load-failed", f"[{kind}/{'rel' if relativize else 'abs'}] from_text() of a zone that names its origin with $ORIGIN raised {type(e).__name__}: {e}")
    b = Bench(kind, relativize, zone=z)
    m = RefZone(b.origin)
    for op in ops:
        apply_model(b, m, op)
    return b, m


def describe(op):
    return " ".join(f"{k}={v}" for k, v in op.items())


def compare(cls, b, got, want, what):
    if got != want:
        extra = sorted(str(x) for x in got - want)[:3]
        missing = sorted(str(x) for x in want - got)[:3]
        raise Violation(
            cls,
            f"[{b.kind}/{'rel' if b.relativize else 'abs'}] {what}: unexpected {extra} missing {missing}",
        )
