"""C19 -- the copy-on-write B-tree is a correct sorted map with isolated clones.

Engine: btreesim.  The B-tree has no threads, clock or I/O of its own; what is simulated
is the interleaving of several *holders* of shared mutable structure -- up to five trees
related by clone edges, up to four registered cursors and live iterators kept open across
mutations -- chosen by a seeded scheduler.  No fault kind applies (an operation cannot fail
half-way by contract).  Oracles: a sorted-dict model per tree, a gap-position model per
cursor, structure invariants, and fingerprints of every node reachable from a frozen tree.
"""

import bisect
import copy

from simkit.core import EventLog, RunResult, Violation, sub_rng

PROP = "C19"
ENGINE = "btreesim"
HANG_WATCHDOG = True  # (sequential engine: a run that does not come back is a violation, see simkit.runner.run_guarded)
LEVEL = "exploration"
TIERS = {
    "quick": {"runs": 20000, "budget_s": 75},
    "thorough": {"runs": 300000, "budget_s": 1500},
}
DET_EVERY = 50
RULE = (
    "one run = one seeded interleaved history (60-1500 operations) over up to 5 B-tree handles related by clone edges "
    "(BTreeDict or BTreeSet, t in {3,4,5,8,64}, in-order optimisation on/off, one of five key patterns), up to 4 "
    "registered cursors and live iterators held across mutations: mapping/set API calls, delete_exact, make_immutable, "
    "clone of frozen and non-frozen trees, mutation attempts on frozen trees, cursor seek/seek_first/seek_last/next/prev; "
    "after every step every tree is compared with its model (lookup, len, order), structure invariants are checked and "
    "frozen-node fingerprints must be unchanged; non-trivial = a clone was mutated while its original stayed alive or a "
    "cursor was used after a mutation of its tree; distinct = distinct event-log digests"
)
STATE_MEASURE = "distinct (tree count, frozen mask, per-tree size bucket, per-tree height, open cursor count) tuples"
COMPONENTS_REAL = ["dns.btree.BTreeDict / BTreeSet / BTree / _Node / Cursor (all of dns/btree.py)"]
COMPONENTS_STUB = ["the holders (clients issuing the interleaved history)"]
EXPECTED_PROBES = [
    "left_steal",
    "right_steal",
    "merge",
    "root_collapse",
    "root_split",
    "in_order_optimisation",
    "clone_mutated_original_reread",
    "cursor_used_after_mutation",
    "cursor_key_deleted_while_parked",
    "frozen_mutation_refused",
    "clone_of_unfrozen_refused",
    "iterator_survived_mutation",
    "handle_dropped_while_clones_alive",
]

_B = None
_COUNTS = {}


def setup():
    global _B
    import dns.btree

    _B = dns.btree
    N = dns.btree._Node

    def wrap(name, probe, truthy=True):
        orig = getattr(N, name)

        def w(self, *a, **kw):
            r = orig(self, *a, **kw)
            if (not truthy) or r:
                _COUNTS[probe] = _COUNTS.get(probe, 0) + 1
            return r

        setattr(N, name, w)

    if not getattr(N, "_verif_wrapped", False):
        wrap("try_left_steal", "left_steal")
        wrap("try_right_steal", "right_steal")
        wrap("merge", "merge", truthy=False)
        wrap("optimize_in_order_insertion", "in_order_optimisation", truthy=False)
        N._verif_wrapped = True


# ---------------------------------------------------------------------------


def gen_case(seed, tier):
    rng = sub_rng(seed, "workload")
    big = tier == "thorough"
    universe = rng.choice([8, 30, 100, 400, 2000])
    cfg = {
        "kind": rng.choice(["dict", "dict", "set"]),
        "t": rng.choice([3, 3, 4, 5, 8, 64]),
        "in_order": rng.random() < 0.4,
        "pattern": rng.choice(["random", "ascending", "descending", "clustered", "alternating"]),
        "universe": universe,
        "preload": rng.choice([0, 5, 40, 200]) if universe > 30 else rng.choice([0, 5]),
        # keys are signed in half of the runs: 0 (a falsy key) then sits in the middle of the key
        # space instead of being the minimum
        "offset": rng.choice([0, universe // 2]),
    }
    off = cfg["offset"]
    n = rng.choice([60, 200, 600, 1500] if big else [60, 200, 500])
    ops = []
    seq = 0
    for _ in range(n):
        r = rng.random()
        h = rng.randrange(5)
        if cfg["pattern"] == "random":
            k = rng.randrange(universe)
        elif cfg["pattern"] == "ascending":
            seq += 1
            k = seq % universe if rng.random() < 0.8 else rng.randrange(universe)
        elif cfg["pattern"] == "descending":
            seq += 1
            k = (universe - seq) % universe if rng.random() < 0.8 else rng.randrange(universe)
        elif cfg["pattern"] == "clustered":
            k = (rng.randrange(3) * (universe // 3) + rng.randrange(max(1, universe // 10))) % universe
        else:
            seq += 1
            k = (seq // 2) % universe
        k -= off
        if r < 0.30:
            ops.append(["set", h, k])
        elif r < 0.50:
            ops.append(["del", h, k])
        elif r < 0.55:
            ops.append([rng.choice(["get", "contains", "len"]), h, k])
        elif r < 0.58:
            ops.append([rng.choice(["pop", "popitem", "setdefault", "update", "discard", "delete_exact", "remove"]), h, k])
        elif r < 0.585:
            ops.append(["clear", h, 0])
        elif r < 0.62:
            ops.append(["freeze", h, 0])
        elif r < 0.66:
            ops.append(["clone", h, rng.choice([0, 1])])
        elif r < 0.67:
            ops.append(["drop", h, 0])
        elif r < 0.70:
            ops.append(["setop", h, rng.choice(["|=", "&=", "-=", "^="]), [rng.randrange(universe) - off for _ in range(rng.choice([1, 3, 8]))]])
        elif r < 0.74:
            ops.append(["copen", h, rng.randrange(4)])
        elif r < 0.76:
            ops.append(["cclose", 0, rng.randrange(4)])
        elif r < 0.82:
            ops.append(["seek", rng.randrange(4), k, rng.random() < 0.5])
        elif r < 0.84:
            ops.append([rng.choice(["seek_first", "seek_last"]), rng.randrange(4)])
        elif r < 0.95:
            ops.append([rng.choice(["next", "next", "prev"]), rng.randrange(4)])
        elif r < 0.97:
            ops.append(["iopen", h, rng.randrange(2)])
        else:
            ops.append(["inext", 0, rng.randrange(2)])
    return {"prop": PROP, "seed": seed, "cfg": cfg, "ops": ops}


# ---------------------------------------------------------------------------
# models


class TreeModel:
    def __init__(self):
        self.d = {}
        self.keys = []
        self.frozen = False

    def copy(self):
        m = TreeModel()
        m.d = dict(self.d)
        m.keys = list(self.keys)
        return m

    def set(self, k, v):
        if k not in self.d:
            bisect.insort(self.keys, k)
        self.d[k] = v

    def delete(self, k):
        if k in self.d:
            del self.d[k]
            self.keys.pop(bisect.bisect_left(self.keys, k))
            return True
        return False

    def clear(self):
        self.d = {}
        self.keys = []


class CursorModel:
    """A gap position: ('L',) left boundary, ('R',) right boundary, ('b', k) just before k,
    ('a', k) just after k."""

    def __init__(self, tree_index):
        self.tree = tree_index
        self.pos = ("L",)
        self.mutated_since_use = False

    def next(self, tm):
        if self.pos[0] == "R":
            return None
        keys = tm.keys
        if self.pos[0] == "L":
            i = 0
        elif self.pos[0] == "b":
            i = bisect.bisect_left(keys, self.pos[1])
        else:
            i = bisect.bisect_right(keys, self.pos[1])
        if i >= len(keys):
            self.pos = ("R",)
            return None
        self.pos = ("a", keys[i])
        return keys[i]

    def prev(self, tm):
        if self.pos[0] == "L":
            return None
        keys = tm.keys
        if self.pos[0] == "R":
            i = len(keys) - 1
        elif self.pos[0] == "b":
            i = bisect.bisect_left(keys, self.pos[1]) - 1
        else:
            i = bisect.bisect_right(keys, self.pos[1]) - 1
        if i < 0:
            self.pos = ("L",)
            return None
        self.pos = ("b", keys[i])
        return keys[i]


# ---------------------------------------------------------------------------
# structure checks


def check_structure(tree, what):
    t = tree.t
    root = tree.root
    depths = set()
    count = [0]
    last = [None]

    def walk(node, depth, is_root):
        n = len(node.elts)
        if n > 2 * t - 1:
            raise Violation("C19:node-overfull", f"{what}: node with {n} keys, maximum is {2 * t - 1}")
        if not is_root and n < t - 1:
            raise Violation("C19:node-underfull", f"{what}: non-root node with {n} keys, minimum is {t - 1}")
        if node.is_leaf:
            if node.children:
                raise Violation("C19:structure", f"{what}: leaf with children")
            depths.add(depth)
            for e in node.elts:
                k = e.key()
                if last[0] is not None and not (last[0] < k):
                    raise Violation("C19:order", f"{what}: keys not strictly increasing ({last[0]} then {k})")
                last[0] = k
                count[0] += 1
        else:
            if len(node.children) != n + 1:
                raise Violation("C19:structure", f"{what}: internal node with {n} keys and {len(node.children)} children")
            if is_root and n == 0:
                raise Violation("C19:structure", f"{what}: empty internal root")
            for i, c in enumerate(node.children):
                walk(c, depth + 1, False)
                if i < n:
                    k = node.elts[i].key()
                    if last[0] is not None and not (last[0] < k):
                        raise Violation("C19:order", f"{what}: keys not strictly increasing ({last[0]} then {k})")
                    last[0] = k
                    count[0] += 1

    walk(root, 0, True)
    if len(depths) > 1:
        raise Violation("C19:leaf-depth", f"{what}: leaves at depths {sorted(depths)}")
    if count[0] != tree.size:
        raise Violation("C19:size", f"{what}: size field {tree.size}, elements in the tree {count[0]}")
    return (max(depths) if depths else 0)


def fingerprint(tree):
    """[(node, ids of its elements, ids of its children)] for every node reachable now.  The
    node objects themselves are kept, so the check works after the tree handle is dropped."""
    out = []

    def walk(node):
        out.append((node, tuple(id(e) for e in node.elts), tuple(id(c) for c in node.children), list(node.elts)))
        for c in node.children:
            walk(c)

    walk(tree.root)
    return out


def fingerprint_changed(fp):
    n = 0
    for node, elts, children, _keep in fp:
        if tuple(id(e) for e in node.elts) != elts or tuple(id(c) for c in node.children) != children:
            n += 1
    return n


class _World:
    def __init__(self, case, res, log):
        B = _B
        self.case = case
        self.res = res
        self.log = log
        cfg = case["cfg"]
        self.kind = cfg["kind"]
        self.trees = []  # real trees
        self.models = []
        self.parent = []
        self.frozen_fp = {}  # tree index -> (fingerprint, keepalive)
        self.cursors = {}  # slot -> (real cursor, CursorModel)
        self.iters = {}  # slot -> (generator, CursorModel)
        self.nontrivial = False
        self.vcount = 0
        t0 = self._new_tree()
        rng = sub_rng(case["seed"], "preload")
        for _ in range(cfg["preload"]):
            self._set(0, rng.randrange(cfg["universe"]) - cfg.get("offset", 0))

    def _new_tree(self, original=None):
        B = _B
        cfg = self.case["cfg"]
        cls = B.BTreeDict if self.kind == "dict" else B.BTreeSet
        if original is None:
            tr = cls(t=cfg["t"], in_order=cfg["in_order"])
        else:
            tr = cls(original=original, in_order=cfg["in_order"])
        self.trees.append(tr)
        return tr

    def _mutated(self, i):
        for slot, (c, cm) in self.cursors.items():
            if cm.tree == i:
                cm.mutated_since_use = True
        for slot, (g, cm) in self.iters.items():
            if cm.tree == i:
                cm.mutated_since_use = True
        if self.parent[i] is not None or any(p == i for p in self.parent):
            self.nontrivial = True

    def _set(self, i, k):
        tr, m = self.trees[i], self.models[i]
        self.vcount += 1
        v = self.vcount
        if self.kind == "dict":
            tr[k] = v
            m.set(k, v)
        else:
            tr.add(k)
            m.set(k, True)

    def check_all(self, what):
        res = self.res
        for i, (tr, m) in enumerate(zip(self.trees, self.models)):
            if tr is None:
                continue
            tag = f"{what}: tree {i}"
            if len(tr) != len(m.keys):
                raise Violation("C19:content", f"{tag}: len {len(tr)}, model {len(m.keys)}")
            height = check_structure(tr, tag)
            got = []
            tr.visit_in_order(lambda e: got.append(e))
            if [e.key() for e in got] != m.keys:
                extra = [k for k in (e.key() for e in got) if k not in m.d][:3]
                missing = [k for k in m.keys if k not in set(e.key() for e in got)][:3]
                raise Violation("C19:content", f"{tag}: in-order keys differ from the sorted-dict model (unexpected {extra}, missing {missing})")
            if self.kind == "dict":
                for e in got:
                    if e.value() != m.d[e.key()]:
                        raise Violation("C19:content", f"{tag}: key {e.key()} maps to {e.value()}, model {m.d[e.key()]} (a write leaked between clones or a replacement was lost)")
            m.height = height
        for i, fp in self.frozen_fp.items():
            n = fingerprint_changed(fp)
            if n:
                raise Violation("C19:frozen-node-changed", f"{what}: {n} node(s) that were reachable from frozen tree {i} when it was frozen have been modified in place -- missing copy-on-write")
        alive = [m for t, m in zip(self.trees, self.models) if t is not None]
        res.state(len(alive), tuple(m.frozen for m in alive), tuple(min(len(m.keys), 64) // 8 for m in alive), tuple(getattr(m, "height", 0) for m in alive), len(self.cursors))

    # ---- operations ----
    def apply(self, op):
        B = _B
        res = self.res
        o = op[0]
        ntrees = len(self.trees)
        if o in ("set", "del", "get", "contains", "len", "pop", "popitem", "setdefault", "update", "discard", "delete_exact", "remove", "clear", "freeze", "clone", "setop", "copen", "iopen", "drop"):
            alive = [j for j, t in enumerate(self.trees) if t is not None]
            i = alive[op[1] % len(alive)]
            tr, m = self.trees[i], self.models[i]
        if o == "drop":
            # a holder lets go of its handle: the tree object may be collected while clones
            # that share its nodes live on (and its address may be reused by a later tree)
            if len(alive) < 2:
                return
            if any(cm.tree == i for _, cm in self.cursors.values()) or any(cm.tree == i for _, cm in self.iters.values()):
                return
            self.trees[i] = None
            self.models[i] = TreeModel()
            del tr
            self.res.probes.inc("handle_dropped_while_clones_alive")
            return
        if o == "set":
            k = op[2]
            if m.frozen:
                self._expect_immutable(lambda: self._set_real_only(i, k), i)
                return
            self._set(i, k)
            self._mutated(i)
        elif o == "del":
            k = op[2]
            if m.frozen:
                self._expect_immutable(lambda: self._del_real(tr, k), i)
                return
            had = m.delete(k)
            try:
                self._del_real(tr, k)
                ok = True
            except KeyError:
                ok = False
            if ok != had and self.kind == "dict":
                raise Violation("C19:delete", f"tree {i}: del {k}: KeyError={not ok}, key present in model={had}")
            for slot, (c, cm) in self.cursors.items():
                if cm.tree == i and had and cm.pos[0] in ("a", "b") and cm.pos[1] == k:
                    res.probes.inc("cursor_key_deleted_while_parked")
            self._mutated(i)
        elif o == "get":
            k = op[2]
            if self.kind == "dict":
                got = tr.get(k, None)
                if got != m.d.get(k):
                    raise Violation("C19:lookup", f"tree {i}: get({k}) = {got}, model {m.d.get(k)}")
            else:
                if (k in tr) != (k in m.d):
                    raise Violation("C19:lookup", f"tree {i}: {k} in set = {k in tr}, model {k in m.d}")
            if self.parent[i] is not None or any(p == i for p in self.parent):
                res.probes.inc("clone_mutated_original_reread")
        elif o == "contains":
            k = op[2]
            if (k in tr) != (k in m.d):
                raise Violation("C19:lookup", f"tree {i}: {k} in tree = {k in tr}, model {k in m.d}")
        elif o == "len":
            if len(tr) != len(m.keys):
                raise Violation("C19:content", f"tree {i}: len {len(tr)}, model {len(m.keys)}")
        elif o in ("pop", "popitem", "setdefault", "update", "discard", "remove", "delete_exact", "clear"):
            self._misc(i, o, op[2])
        elif o == "setop":
            self._setop(i, op[2], op[3])
        elif o == "freeze":
            tr.make_immutable()
            tr.make_immutable()
            if not m.frozen:
                m.frozen = True
                self.frozen_fp[i] = fingerprint(tr)
        elif o == "clone":
            if len([t for t in self.trees if t is not None]) >= 5:
                return
            if not m.frozen:
                try:
                    if op[2]:
                        copy.copy(tr)
                    else:
                        type(tr)(original=tr)
                except ValueError:
                    res.probes.inc("clone_of_unfrozen_refused")
                    return
                raise Violation("C19:clone-of-mutable", f"tree {i}: cloning a tree that is not frozen did not raise")
            if op[2]:
                ntr = copy.copy(tr)
                self.trees.append(ntr)
            else:
                ntr = self._new_tree(original=tr)
            if ntr.t != tr.t:
                raise Violation("C19:clone", f"clone of tree {i} has t={ntr.t}, original t={tr.t}")
            nm = m.copy()
            self.models.append(nm)
            self.parent.append(i)
        elif o == "copen":
            slot = op[2]
            if slot in self.cursors:
                return
            c = tr.cursor()
            c.__enter__()
            self.cursors[slot] = (c, CursorModel(i))
        elif o == "cclose":
            slot = op[2]
            if slot in self.cursors:
                c, cm = self.cursors.pop(slot)
                c.__exit__(None, None, None)
        elif o in ("seek", "seek_first", "seek_last", "next", "prev"):
            slot = op[1]
            if slot not in self.cursors:
                return
            c, cm = self.cursors[slot]
            tm = self.models[cm.tree]
            if o == "seek":
                c.seek(op[2], op[3])
                cm.pos = ("b", op[2]) if op[3] else ("a", op[2])
                cm.mutated_since_use = False
            elif o == "seek_first":
                c.seek_first()
                cm.pos = ("L",)
                cm.mutated_since_use = False
            elif o == "seek_last":
                c.seek_last()
                cm.pos = ("R",)
                cm.mutated_since_use = False
            else:
                before = cm.pos
                want = cm.next(tm) if o == "next" else cm.prev(tm)
                e = c.next() if o == "next" else c.prev()
                got = None if e is None else e.key()
                if got != want:
                    raise Violation(
                        "C19:cursor",
                        f"cursor {slot} on tree {cm.tree} at gap {before}: {o}() returned {got}, the sorted-dict model gives {want} (mutated since last use: {cm.mutated_since_use})",
                    )
                if self.kind == "dict" and e is not None and e.value() != tm.d[got]:
                    raise Violation("C19:cursor", f"cursor {slot}: {o}() returned key {got} with value {e.value()}, model {tm.d[got]}")
                if cm.mutated_since_use:
                    res.probes.inc("cursor_used_after_mutation")
                    self.nontrivial = True
                cm.mutated_since_use = False
        elif o == "iopen":
            slot = op[2]
            if slot in self.iters:
                return
            self.iters[slot] = (iter(tr), CursorModel(i))
        elif o == "inext":
            slot = op[2]
            if slot not in self.iters:
                return
            g, cm = self.iters[slot]
            tm = self.models[cm.tree]
            want = cm.next(tm)
            try:
                got = next(g)
            except StopIteration:
                got = None
                del self.iters[slot]
            if got != want:
                raise Violation("C19:iterator", f"live iterator {slot} on tree {cm.tree}: next -> {got}, model {want} (mutated since last use: {cm.mutated_since_use})")
            if cm.mutated_since_use:
                res.probes.inc("iterator_survived_mutation")
            cm.mutated_since_use = False

    def _set_real_only(self, i, k):
        tr = self.trees[i]
        if self.kind == "dict":
            tr[k] = -1
        else:
            tr.add(k)

    def _del_real(self, tr, k):
        if self.kind == "dict":
            del tr[k]
        else:
            tr.discard(k)

    def _expect_immutable(self, fn, i):
        B = _B
        try:
            fn()
        except B.Immutable:
            self.res.probes.inc("frozen_mutation_refused")
            return
        except KeyError:
            # deleting an absent key from a frozen tree may also say KeyError after refusing
            return
        except TypeError as e:
            raise Violation("C19:set-api", f"tree {i}: {e}")
        raise Violation("C19:frozen-mutated", f"tree {i}: a mutation of a frozen tree did not raise Immutable")

    def _misc(self, i, o, k):
        B = _B
        tr, m = self.trees[i], self.models[i]
        frozen = m.frozen
        isdict = self.kind == "dict"

        def guard(fn, mutates):
            if frozen and mutates:
                self._expect_immutable(fn, i)
                return None, True
            if frozen:
                # a call that would change nothing may be refused or be a no-op
                try:
                    return fn(), True
                except (B.Immutable, KeyError):
                    return None, True
            return fn(), False

        if o == "pop" and isdict:
            if k in m.d:
                r, refused = guard(lambda: tr.pop(k), True)
                if not refused:
                    if r != m.d[k]:
                        raise Violation("C19:content", f"tree {i}: pop({k}) = {r}, model {m.d[k]}")
                    m.delete(k)
                    self._mutated(i)
            else:
                if tr.pop(k, "dflt") != "dflt":
                    raise Violation("C19:content", f"tree {i}: pop of an absent key returned a value")
        elif o == "popitem" and isdict:
            if m.keys:
                r, refused = guard(lambda: tr.popitem(), True)
                if not refused:
                    if r[0] not in m.d or m.d[r[0]] != r[1]:
                        raise Violation("C19:content", f"tree {i}: popitem() = {r} not in model")
                    m.delete(r[0])
                    self._mutated(i)
        elif o == "setdefault" and isdict:
            if k in m.d:
                if tr.setdefault(k, -5) != m.d[k]:
                    raise Violation("C19:content", f"tree {i}: setdefault({k}) returned a wrong value")
            else:
                self.vcount += 1
                v = self.vcount
                r, refused = guard(lambda: tr.setdefault(k, v), True)
                if not refused:
                    m.set(k, v)
                    self._mutated(i)
        elif o == "update" and isdict:
            self.vcount += 1
            v = self.vcount
            items = {k: v, k + 1: v}
            r, refused = guard(lambda: tr.update(items), True)
            if not refused:
                for kk, vv in items.items():
                    m.set(kk, vv)
                self._mutated(i)
        elif o in ("discard", "remove") and not isdict:
            if o == "remove" and k not in m.d:
                try:
                    tr.remove(k)
                except KeyError:
                    return
                except B.Immutable:
                    return
                raise Violation("C19:delete", f"set {i}: remove of an absent member did not raise KeyError")
            r, refused = guard(lambda: getattr(tr, o)(k), k in m.d)
            if not refused:
                m.delete(k)
                self._mutated(i)
        elif o == "delete_exact":
            e = tr.get_element(k)
            if e is None:
                return
            # a different element object with the same key must not be deleted
            other = B.KV(k, "x") if isdict else B.Member(k)
            if frozen:
                self._expect_immutable(lambda: tr.delete_exact(other), i)
                return
            try:
                r = tr.delete_exact(other)
            except (ValueError, AssertionError):
                r = None  # refusing with an error is fine; the content check below decides
            if r is not None:
                raise Violation("C19:delete-exact", f"tree {i}: delete_exact with a different element object removed key {k}")
            self._mutated(i)
            r = tr.delete_exact(e)
            if r is not e:
                raise Violation("C19:delete-exact", f"tree {i}: delete_exact of the stored element did not return it")
            m.delete(k)
            self._mutated(i)
        elif o == "clear":
            if frozen:
                if m.keys:
                    self._expect_immutable(lambda: tr.clear(), i)
                return
            tr.clear()
            m.clear()
            self._mutated(i)

    def _setop(self, i, sym, values):
        B = _B
        if self.kind != "set":
            return
        tr, m = self.trees[i], self.models[i]
        other = set(values)
        cur = set(m.keys)
        if sym == "|=":
            new = cur | other
        elif sym == "&=":
            new = cur & other
        elif sym == "-=":
            new = cur - other
        else:
            new = cur ^ other

        def run():
            nonlocal tr
            if sym == "|=":
                tr |= other
            elif sym == "&=":
                tr &= other
            elif sym == "-=":
                tr -= other
            else:
                tr ^= other

        if m.frozen:
            if new != cur:
                self._expect_immutable(run, i)
            else:
                try:
                    run()
                except B.Immutable:
                    pass
            return
        try:
            run()
        except TypeError as e:
            raise Violation("C19:set-api", f"set {i}: the in-place set operator {sym} raised TypeError: {e}")
        if tr is not self.trees[i]:
            raise Violation("C19:content", f"set {i}: in-place operator {sym} returned a different object")
        for k in cur - new:
            m.delete(k)
        for k in new - cur:
            m.set(k, True)
        self._mutated(i)


def run_case(case, keep_log=False):
    res = RunResult()
    log = EventLog(keep=keep_log)
    _COUNTS.clear()
    try:
        w = _World.__new__(_World)
        w.case = case
        w.res = res
        w.log = log
        w.kind = case["cfg"]["kind"]
        w.trees = []
        w.models = [TreeModel()]
        w.parent = [None]
        w.frozen_fp = {}
        w.cursors = {}
        w.iters = {}
        w.nontrivial = False
        w.vcount = 0
        w._new_tree()
        rng = sub_rng(case["seed"], "preload")
        for _ in range(case["cfg"]["preload"]):
            w._set(0, rng.randrange(case["cfg"]["universe"]) - case["cfg"].get("offset", 0))
        w.check_all("after preload")
        every = 1 if len(case["ops"]) <= 250 else 4
        for n, op in enumerate(case["ops"]):
            heights = [getattr(m, "height", 0) for m in w.models]
            w.apply(op)
            if n % every == 0 or n == len(case["ops"]) - 1:
                w.check_all(f"after op {n} {op[:3]}")
                for i, m in enumerate(w.models[: len(heights)]):
                    if getattr(m, "height", 0) < heights[i]:
                        res.probes.inc("root_collapse")
                    elif getattr(m, "height", 0) > heights[i]:
                        res.probes.inc("root_split")
            log.add(n, op[0], len(w.trees), tuple(len(m.keys) for m in w.models))
        w.check_all("end")
        for slot, (c, cm) in list(w.cursors.items()):
            c.__exit__(None, None, None)
        res.nontrivial = w.nontrivial
    except Violation as v:
        res.violation = (v.cls, v.detail)
    except RecursionError as e:
        res.violation = ("C19:structure", f"recursion error walking the tree: {e}")
    for k, v in _COUNTS.items():
        res.probes.inc(k, v)
    res.digest = log.digest()
    res.steps = len(case["ops"])
    if keep_log:
        res.extra["log"] = log.lines
    return res


def shrink(case):
    ops = case["ops"]
    n = len(ops)
    chunk = max(1, n // 2)
    while chunk >= 1:
        for start in range(0, n, chunk):
            c = copy.deepcopy(case)
            del c["ops"][start : start + chunk]
            yield c
        if chunk == 1:
            break
        chunk //= 2
    cfg = case["cfg"]
    if cfg["preload"]:
        c = copy.deepcopy(case)
        c["cfg"]["preload"] = 0
        yield c
    if cfg["in_order"]:
        c = copy.deepcopy(case)
        c["cfg"]["in_order"] = False
        yield c


MINIMISE_BUDGET_S = 40.0


def known_match(finding, case, violation):
    return False
