"""C17 -- resolver caches never serve stale data, honour the LRU bound, are linearizable.

Engines: cachesim (sequential histories on a virtual clock) and threadsim
(2-4 threads on one cache, pre-empted at every shim lock operation and at every
source line of the cache methods; the recorded invoke/return history is checked
with a Wing-Gong linearizability search against the sequential model).
Real: dns.resolver.Cache, LRUCache, LRUCacheNode, CacheBase.  Virtual:
dns.resolver.time, dns.resolver.threading.  Stub: the stored Answer objects
(the caches only read `.expiration`).
"""

import copy

from simkit.core import EventLog, RunResult, Violation, sub_rng
from simkit import threadsim
from simkit.threadsim import Deadlock, Scheduler
from simkit.vtime import VT

PROP = "C17"
ENGINE = "cachesim"
LEVEL = "exploration"
TIERS = {
    "quick": {"runs": 40000, "budget_s": 75},
    "thorough": {"runs": 3000000, "budget_s": 1500},
}
DET_EVERY = 100
RULE = (
    "one run = either a sequential history of 20-200 get/put/flush/resize/statistics operations and clock advances "
    "(including advances landing exactly on an expiration or on next_cleaning) on a dns.resolver.Cache or LRUCache "
    "with 2-6 keys, compared step by step with a sequential model and ring/dict structure invariants; or a concurrent "
    "history of 2-4 threads x 1-5 operations in 1-3 rounds under a seeded schedule with line-level pre-emption inside "
    "the cache methods, checked for linearizability (Wing-Gong search) against the same model; non-trivial = an expiry, "
    "eviction or re-put happened (sequential) / a context switch happened inside a cache method (concurrent); "
    "distinct = distinct event-log digests"
)
STATE_MEASURE = "distinct sequential-model states (entries in recency order with expiry class, max_size, counters mod 4)"
COMPONENTS_REAL = ["dns.resolver.Cache", "dns.resolver.LRUCache", "dns.resolver.LRUCacheNode", "dns.resolver.CacheBase/CacheStatistics"]
COMPONENTS_STUB = ["time module inside dns.resolver (virtual clock)", "threading.Lock inside dns.resolver (scheduler shim)", "Answer values (only .expiration is read)", "client threads"]
EXPECTED_PROBES = [
    "real_answer_object_cached",
    "expired_entry_requested",
    "eviction_at_limit",
    "put_existing_key",
    "resize_smaller_then_put",
    "flush_middle_ring_node",
    "clean_sweep_fired",
    "get_exactly_at_expiration",
    "conc_two_threads_same_key_put",
    "conc_get_overlaps_flush_all",
    "conc_switch_inside_critical_section",
    "conc_clock_moved_while_op_in_flight",
    "conc_resize_overlaps_put",
]

_R = None  # dns.resolver


class FakeAnswer:
    __slots__ = ("expiration", "uid")

    def __init__(self, expiration, uid):
        self.expiration = expiration
        self.uid = uid

    def __repr__(self):
        return f"<A{self.uid}@{self.expiration}>"


_ANSWERS = {}


def prepare_answer(uid, ttl, abs_exp, res=None):
    """For whole-second TTLs four puts in five store a *real* dns.resolver.Answer built from a
    response (the answer behind a CNAME with the smaller TTL on either side, or a negative answer
    whose lifetime comes from the SOA); its expiration must be now + the minimum TTL."""
    import dns.message
    import dns.name
    import dns.rrset
    import dns.rdatatype
    import dns.rdataclass

    if uid % 5 == 0 or ttl < 0 or abs(round(ttl) - ttl) > 1e-9:
        return
    ttl = int(round(ttl))
    variant = uid % 5
    qname = dns.name.from_text(f"q{uid}.example.")
    q = dns.message.make_query(qname, "A")
    r = dns.message.make_response(q)
    if variant == 1:
        r.answer.append(dns.rrset.from_text(qname, ttl, "IN", "CNAME", "t.other.test."))
        r.answer.append(dns.rrset.from_text("t.other.test.", ttl + 7, "IN", "A", "10.0.0.1"))
    elif variant == 2:
        r.answer.append(dns.rrset.from_text(qname, ttl + 300, "IN", "CNAME", "t.other.test."))
        r.answer.append(dns.rrset.from_text("t.other.test.", ttl, "IN", "A", "10.0.0.1"))
    elif variant == 3:
        r.authority.append(dns.rrset.from_text("example.", ttl + (5 if uid % 2 else 0), "IN", "SOA", f"ns. h. 1 2 3 4 {ttl if uid % 2 else ttl + 9}"))
    else:
        # no data at the end of a CNAME chain that leaves the zone: the negative lifetime comes from
        # the SOA of the zone the chain ends in
        if (uid // 5) % 2:
            r.answer.append(dns.rrset.from_text(qname, ttl + 300, "IN", "CNAME", "t.other.test."))
            r.authority.append(dns.rrset.from_text("other.test.", ttl + (5 if uid % 2 else 0), "IN", "SOA", f"ns. h. 1 2 3 4 {ttl if uid % 2 else ttl + 9}"))
        else:
            # ... or from the CNAME on the way there when that one expires first
            r.answer.append(dns.rrset.from_text(qname, ttl, "IN", "CNAME", "t.other.test."))
            r.authority.append(dns.rrset.from_text("other.test.", ttl + 50, "IN", "SOA", f"ns. h. 1 2 3 4 {ttl + 9}"))
    r = dns.message.from_wire(r.to_wire())
    ans = _R.Answer(qname, dns.rdatatype.A, dns.rdataclass.IN, r)
    if abs(ans.expiration - abs_exp) > 1e-6:
        raise Violation("C17:answer-expiration", f"an Answer built at {VT.now} from a response whose minimum TTL is {ttl}s ({['', 'CNAME TTL below the address TTL', 'address TTL below the CNAME TTL', 'negative answer, SOA', 'negative answer at the end of a CNAME chain into another zone'][variant]}) expires at {ans.expiration}, not at {abs_exp}")
    ans.uid = uid
    _ANSWERS[uid] = ans
    if res is not None:
        res.probes.inc("real_answer_object_cached")


def setup():
    global _R
    import dns.resolver

    _R = dns.resolver
    dns.resolver.time = VT
    dns.resolver.threading = threadsim.SHIM
    funcs = []
    for cls in (dns.resolver.Cache, dns.resolver.LRUCache, dns.resolver.LRUCacheNode, dns.resolver.CacheBase, dns.resolver.CacheStatistics):
        funcs += threadsim.functions_of(cls)
    threadsim.enable_line_preemption(funcs)
    # seam audit
    VT.reset(1000.0)
    c = dns.resolver.Cache(cleaning_interval=7.0)
    if c.next_cleaning != 1007.0 or not isinstance(c.lock, threadsim.ShimLock):
        from simkit.core import HarnessError

        raise HarnessError("seam dns.resolver.time / dns.resolver.threading")


# ---------------------------------------------------------------------------
# sequential reference model (pure functions over a hashable state)
#   state = (entries, max_size, hits, misses); entries = tuple of (key, uid, exp, khits),
#   most recently used first for the LRU cache, sorted by key for the plain cache.


def m_apply(kind, st, op, now):
    entries, max_size, hits, misses = st
    o = op[0]
    if o == "get":
        k = op[1]
        for i, e in enumerate(entries):
            if e[0] == k:
                if e[2] <= now:
                    if kind == "lru":
                        entries = entries[:i] + entries[i + 1 :]
                    return (entries, max_size, hits, misses + 1), None
                if kind == "lru":
                    entries = ((e[0], e[1], e[2], e[3] + 1),) + entries[:i] + entries[i + 1 :]
                return (entries, max_size, hits + 1, misses), e[1]
        return (entries, max_size, hits, misses + 1), None
    if o == "put":
        k, uid, exp = op[1], op[2], op[3]
        entries = tuple(e for e in entries if e[0] != k)
        if kind == "lru":
            while len(entries) >= max_size:
                entries = entries[:-1]
            entries = ((k, uid, exp, 0),) + entries
        else:
            entries = tuple(sorted(entries + ((k, uid, exp, 0),)))
        return (entries, max_size, hits, misses), None
    if o == "flush":
        k = op[1]
        return (tuple(e for e in entries if e[0] != k), max_size, hits, misses), None
    if o == "flushall":
        return ((), max_size, hits, misses), None
    if o == "resize":
        return (entries, max(1, op[1]), hits, misses), None
    if o == "khits":
        for e in entries:
            if e[0] == op[1]:
                return st, (0 if e[2] <= now else e[3])
        return st, 0
    if o == "hits":
        return st, hits
    if o == "misses":
        return st, misses
    if o == "snap":
        return st, (hits, misses)
    if o == "reset":
        return (entries, max_size, 0, 0), None
    raise ValueError(o)


_SPELL = [0]


class _Respelled:
    """keys[i] handed to the cache as a *new* equal object each time, the owner name in alternating
    case (cache keys are compared by value, names case-insensitively; never by identity)."""

    def __init__(self, keys):
        self.keys = keys

    def __getitem__(self, i):
        import dns.name

        k = self.keys[i]
        _SPELL[0] += 1
        text = k[0].to_text()
        return (dns.name.from_text(text.upper() if _SPELL[0] % 2 else text.lower()), k[1], k[2])


def r_apply(cache, kind, op, keys):
    """Run the op on the real cache; returns a comparable result."""
    o = op[0]
    keys = _Respelled(keys)
    if o == "get":
        v = cache.get(keys[op[1]])
        return None if v is None else v.uid
    if o == "put":
        real = _ANSWERS.get(op[2])  # (a negative Answer is falsy: test identity, not truth)
        if real is None:
            # (kept, so that storing "the same answer again" hands over the identical object)
            real = _ANSWERS[op[2]] = FakeAnswer(op[3], op[2])
        return cache.put(keys[op[1]], real)
    if o == "flush":
        return cache.flush(keys[op[1]])
    if o == "flushall":
        return cache.flush()
    if o == "resize":
        return cache.set_max_size(op[1])
    if o == "khits":
        return cache.get_hits_for_key(keys[op[1]])
    if o == "hits":
        return cache.hits()
    if o == "misses":
        return cache.misses()
    if o == "snap":
        s = cache.get_statistics_snapshot()
        vals = (s.hits, s.misses)
        # the caller owns the snapshot: it may keep it and do what it likes with it
        s.hits += 1000
        s.misses += 1000
        return vals
    if o == "reset":
        return cache.reset_statistics()
    raise ValueError(o)


def make_keys(n):
    import dns.name
    import dns.rdatatype
    import dns.rdataclass

    return [(dns.name.from_text(f"k{i}.example."), dns.rdatatype.A, dns.rdataclass.IN) for i in range(n)]


def structure_check(cache, kind, st, keys, after_put, what):
    entries, max_size, hits, misses = st
    if kind == "lru":
        fwd = []
        n = cache.sentinel.next
        guard = 0
        while n is not cache.sentinel:
            fwd.append(n.key)
            if n.next.prev is not n or n.prev.next is not n:
                raise Violation("C17:ring-broken", f"{what}: ring links inconsistent at {n.key}")
            n = n.next
            guard += 1
            if guard > 1000:
                raise Violation("C17:ring-broken", f"{what}: ring does not return to the sentinel")
        bwd = []
        n = cache.sentinel.prev
        while n is not cache.sentinel:
            bwd.append(n.key)
            n = n.prev
            if len(bwd) > 1000:
                raise Violation("C17:ring-broken", f"{what}: backward ring does not return to the sentinel")
        want = [keys[e[0]] for e in entries]
        if fwd != want or bwd != want[::-1]:
            raise Violation("C17:lru-order", f"{what}: ring order {[k[0].to_text() for k in fwd]} but recency order is {[k[0].to_text() for k in want]}")
        if set(cache.data.keys()) != set(want) or len(cache.data) != len(want):
            raise Violation("C17:ring-dict-mismatch", f"{what}: dict keys differ from ring")
        for k, node in cache.data.items():
            if node.key != k:
                raise Violation("C17:ring-dict-mismatch", f"{what}: node.key differs from its dict key")
        if after_put and len(cache.data) > cache.max_size:
            raise Violation("C17:lru-bound", f"{what}: {len(cache.data)} entries after put with max_size {cache.max_size}")
        if cache.max_size != max_size:
            raise Violation("C17:lru-bound", f"{what}: max_size {cache.max_size}, model {max_size}")
    else:
        model_keys = set(keys[e[0]] for e in entries)
        if not set(cache.data.keys()) <= model_keys:
            raise Violation("C17:plain-content", f"{what}: cache holds keys that were flushed or never stored")
        now = VT.now
        for e in entries:
            if e[2] > now and keys[e[0]] not in cache.data:
                raise Violation("C17:plain-content", f"{what}: unexpired entry for key {e[0]} vanished")
        for k, v in cache.data.items():
            for e in entries:
                if keys[e[0]] == k and v.uid != e[1]:
                    raise Violation("C17:plain-content", f"{what}: key {e[0]} holds answer {v.uid}, most recent put was {e[1]}")
    if (cache.statistics.hits, cache.statistics.misses) != (hits, misses):
        raise Violation("C17:counters", f"{what}: counters ({cache.statistics.hits},{cache.statistics.misses}) model ({hits},{misses})")


# ---------------------------------------------------------------------------
# generation


def _gen_op(rng, kind, nkeys):
    r = rng.random()
    k = rng.randrange(nkeys)
    if r < 0.38:
        return ["get", k]
    if r < 0.72:
        if rng.random() < 0.15:
            return ["put", k, None, 60, "same"]
        return ["put", k, None, rng.choice([-1, 0, 0.5, 1, 1, 5, 5, 60])]
    if r < 0.8:
        return ["flush", k]
    if r < 0.83:
        return ["flushall"]
    if r < 0.88:
        return ["resize", rng.choice([-1, 0, 1, 2, 3, 5])] if kind == "lru" else ["get", k]
    if r < 0.92:
        return ["khits", k] if kind == "lru" else ["hits"]
    if r < 0.95:
        return [rng.choice(["hits", "misses"])]
    if r < 0.98:
        return ["snap"]
    return ["reset"]


def gen_case(seed, tier):
    rng = sub_rng(seed, "workload")
    big = tier == "thorough"
    kind = rng.choice(["plain", "lru", "lru"])
    nkeys = rng.choice([2, 3, 4, 6])
    cfg = {"kind": kind, "nkeys": nkeys, "max_size": rng.choice([1, 2, 3, 5]), "interval": rng.choice([2.0, 5.0, 300.0])}
    if rng.random() < 0.6:
        steps = []
        for _ in range(rng.choice([20, 60, 200] if big else [20, 60, 120])):
            if rng.random() < 0.18:
                steps.append(["adv", rng.choice([0, 0.25, 0.5, 1, 4.5, 5, 60, "to_exp", "to_exp", "to_clean"])])
            else:
                steps.append(_gen_op(rng, kind, nkeys))
        return {"prop": PROP, "seed": seed, "mode": "seq", "cfg": cfg, "steps": steps}
    if kind == "lru" and rng.random() < 0.15:
        # template: a limit change lands inside another thread's eviction loop; readers then
        # observe which entries survived
        nk = 5
        cfg["nkeys"] = nk + 1
        cfg["max_size"] = 5
        pre = [["put", i, None, 60] for i in range(rng.choice([3, 4, 5]))]
        small = rng.choice([0, 1, 2])
        threads = [
            [["resize", small], ["put", nk, None, 60]] + [["get", i] for i in rng.sample(range(len(pre)), 2)],
            [["resize", rng.choice([4, 5, 9])]],
            [["get", i] for i in rng.sample(range(len(pre)), min(3, len(pre)))],
        ]
        strat = {"kind": "random", "p_sync": rng.choice([0.3, 0.6]), "p_line": rng.choice([0.2, 0.5, 1.0]), "d": 2, "est_steps": 100, "victim": 0}
        cfg["strategy"] = strat
        return {"prop": PROP, "seed": seed, "mode": "conc", "cfg": cfg, "pre": pre, "rounds": [{"adv": 0, "threads": threads}], "schedule": None}
    rounds = []
    total = 0
    for _ in range(rng.choice([1, 2, 3])):
        threads = []
        for _ in range(rng.choice([2, 2, 3, 4])):
            ops = [_gen_op(rng, kind, nkeys) for _ in range(rng.choice([1, 2, 3, 5]))]
            if kind == "lru" and rng.random() < 0.3:
                # resizes racing with evicting puts
                ops.insert(rng.randrange(len(ops) + 1), ["resize", rng.choice([-3, 0, 1, 2, 5])])
                ops.insert(rng.randrange(len(ops) + 1), ["put", rng.randrange(nkeys), None, rng.choice([1, 5, 60])])
            if rng.random() < 0.35:
                # the clock moves while operations are in flight (another thread's time passes)
                ops.insert(rng.randrange(len(ops) + 1), ["adv", rng.choice([0.5, 1, 5, "to_exp"])])
            if total + len(ops) > 18:
                ops = ops[: max(0, 18 - total)]
            total += len(ops)
            if ops:
                threads.append(ops)
        if threads:
            rounds.append({"adv": rng.choice([0, 0.5, 1, 5, "to_exp"]), "threads": threads})
    strat = {
        "kind": rng.choice(["random", "random", "pct", "starve"]),
        "p_sync": rng.choice([0.3, 0.6, 0.9]),
        "p_line": rng.choice([0.0, 0.05, 0.2, 0.5, 1.0]),
        "d": rng.choice([1, 2, 3]),
        "est_steps": rng.choice([50, 200]),
        "victim": 0,
    }
    cfg["strategy"] = strat
    # a few initial entries so that rings are non-trivial from the start
    pre = [["put", i, None, rng.choice([0.5, 1, 5, 60])] for i in range(rng.randrange(0, nkeys + 1))]
    return {"prop": PROP, "seed": seed, "mode": "conc", "cfg": cfg, "pre": pre, "rounds": rounds, "schedule": None}


# ---------------------------------------------------------------------------


def _new_cache(cfg):
    VT.reset(1000.0)
    if cfg["kind"] == "lru":
        c = _R.LRUCache(cfg["max_size"])
        st = ((), max(1, cfg["max_size"]), 0, 0)
    else:
        c = _R.Cache(cleaning_interval=cfg["interval"])
        st = ((), 0, 0, 0)
    return c, st


def _resolve_adv(dt, st, cache, cfg):
    if dt == "to_exp":
        exps = sorted(e[2] for e in st[0] if e[2] > VT.now)
        return (exps[0] - VT.now) if exps else 1.0
    if dt == "to_clean":
        if cfg["kind"] == "plain":
            return max(0.0, cache.next_cleaning - VT.now)
        return 1.0
    return dt


def _run_seq(case, res, log):
    cfg = case["cfg"]
    kind = cfg["kind"]
    keys = make_keys(cfg["nkeys"])
    cache, st = _new_cache(cfg)
    uid = 0
    pending_resize_smaller = False
    for i, op in enumerate(case["steps"]):
        if op[0] == "adv":
            dt = _resolve_adv(op[1], st, cache, cfg)
            VT.jump(dt)
            res.sim_seconds += dt
            res.faults.inc("clock_advance")
            log.add(i, "adv", round(VT.now, 3))
            continue
        op = list(op)
        now = VT.now
        same = None
        if op[0] == "put" and len(op) > 4 and op[4] == "same":
            # store the very Answer object the key holds already (a refresh of the entry)
            same = [e for e in st[0] if e[0] == op[1] and e[2] > now]
            op = op[:4]
        if op[0] == "put" and same:
            op[2] = same[0][1]
            op[3] = same[0][2]
            res.probes.inc("same_answer_object_stored_again")
        elif op[0] == "put":
            uid += 1
            op[2] = uid
            prepare_answer(uid, op[3], now + op[3], res)
            op[3] = now + op[3]  # absolute expiration
            if any(e[0] == op[1] for e in st[0]):
                res.probes.inc("put_existing_key")
            elif kind == "lru" and len(st[0]) >= st[1]:
                res.probes.inc("eviction_at_limit")
                if pending_resize_smaller:
                    res.probes.inc("resize_smaller_then_put")
            pending_resize_smaller = False
        elif op[0] == "resize" and kind == "lru" and max(1, op[1]) < len(st[0]):
            pending_resize_smaller = True
        elif op[0] == "get":
            for e in st[0]:
                if e[0] == op[1]:
                    if e[2] <= now:
                        res.probes.inc("expired_entry_requested")
                    if e[2] == now:
                        res.probes.inc("get_exactly_at_expiration")
        elif op[0] == "flush" and kind == "lru":
            idx = [j for j, e in enumerate(st[0]) if e[0] == op[1]]
            if idx and 0 < idx[0] < len(st[0]) - 1:
                res.probes.inc("flush_middle_ring_node")
        clean_due = kind == "plain" and op[0] in ("get", "put") and cache.next_cleaning <= now
        hm_before = (cache.statistics.hits, cache.statistics.misses)
        got = r_apply(cache, kind, op, keys)
        nst, want = m_apply(kind, st, tuple(op), now)
        what = f"step {i} {op} at t={now - 1000.0:.2f}"
        if got != want:
            raise Violation("C17:wrong-result", f"{what}: cache returned {got}, sequential model says {want}")
        if op[0] == "get":
            if got is not None:
                exp = [e[2] for e in st[0] if e[0] == op[1]][0]
                if exp <= now:
                    raise Violation("C17:stale-answer", f"{what}: returned an answer whose expiration {exp} <= now {now}")
            hm = (cache.statistics.hits, cache.statistics.misses)
            if hm[0] + hm[1] != hm_before[0] + hm_before[1] + 1:
                raise Violation("C17:counters", f"{what}: hits+misses went from {hm_before} to {hm} for one lookup")
        st = nst
        structure_check(cache, kind, st, keys, op[0] == "put", what)
        if kind == "plain" and op[0] == "flushall":
            if cache.next_cleaning != now + cfg["interval"]:
                raise Violation("C17:clean-sweep", f"{what}: flush() must re-arm the cleaning timer (next_cleaning {cache.next_cleaning}, now {now}, interval {cfg['interval']})")
            if cache.data:
                raise Violation("C17:plain-content", f"{what}: flush() left entries behind")
        if clean_due:
            res.probes.inc("clean_sweep_fired")
            for k, v in cache.data.items():
                if v.expiration <= now and not (op[0] == "put" and k == keys[op[1]]):
                    raise Violation("C17:clean-sweep", f"{what}: expired entry survived a due cleaning")
            if cache.next_cleaning != now + cfg["interval"]:
                raise Violation("C17:clean-sweep", f"{what}: next_cleaning {cache.next_cleaning} after a sweep at {now}")
        log.add(i, op[0], got)
        res.state(kind, tuple((e[0], e[2] > now) for e in st[0]), st[1], st[2] % 4, st[3] % 4)
    res.nontrivial = any(res.probes.get(p, 0) for p in ("expired_entry_requested", "eviction_at_limit", "put_existing_key"))


# ---- linearizability ------------------------------------------------------


def linearizable(kind, init, history, clock_values, cap=100000):
    """history: list of dicts inv, ret, op (tuple), t_lock, t_ret, result.  Wing-Gong search.
    The clock may move while operations are in flight: an operation takes effect at some clock
    value between the moment it obtained the cache lock and its return, and effect times are
    non-decreasing along the linearization."""
    n = len(history)
    full = (1 << n) - 1
    memo = set()
    nodes = [0]
    values = sorted(set(clock_values))

    def search(mask, st, tau):
        if mask == full:
            return True
        key = (mask, st, tau)
        if key in memo:
            return False
        memo.add(key)
        nodes[0] += 1
        if nodes[0] > cap:
            raise OverflowError
        min_ret = min(h["ret"] for i, h in enumerate(history) if not mask & (1 << i))
        for i, h in enumerate(history):
            if mask & (1 << i) or h["inv"] > min_ret:
                continue
            lo = max(tau, h["t_lock"])
            for t in values:
                if t < lo or t > h["t_ret"]:
                    continue
                nst, r = m_apply(kind, st, h["op"], t)
                if r == h["result"] and search(mask | (1 << i), nst, t):
                    return True
        return False

    return search(0, init, values[0]), nodes[0]


def _run_conc(case, res, log):
    cfg = case["cfg"]
    kind = cfg["kind"]
    keys = make_keys(cfg["nkeys"])
    cache, st0 = _new_cache(cfg)
    uid = [0]
    history = []
    seq = [0]
    # pre-load sequentially (also in the model)
    st = st0
    for op in case.get("pre", []):
        op = list(op)
        uid[0] += 1
        op[2] = uid[0]
        op[3] = VT.now + op[3]
        r_apply(cache, kind, op, keys)
        st, _ = m_apply(kind, st, tuple(op), VT.now)
    init = st
    any_switch_inside = [False]
    clock_values = [VT.now]
    current_rec = {}
    for ri, rnd in enumerate(case["rounds"]):
        dt = _resolve_adv(rnd["adv"], st, cache, cfg) if rnd["adv"] != "to_exp" else None
        if dt is None:
            # earliest expiration among entries the real cache currently holds
            exps = sorted(v.value.expiration if kind == "lru" else v.expiration for v in cache.data.values())
            exps = [e for e in exps if e > VT.now]
            dt = (exps[0] - VT.now) if exps else 1.0
        VT.jump(dt)
        res.sim_seconds += dt
        now = VT.now
        clock_values.append(now)
        round_start_index = len(history)
        rng = sub_rng(case["seed"], f"sched{ri}")
        in_method = {}

        def on_step(cur, kind_, info):
            if cur.phase == "in_op" and (kind_ == "line" or kind_.startswith("lock")):
                in_method[cur.idx] = True
            if kind_ == "line" and cache.lock.held and cache.lock.owner is cur:
                res.probes.inc("conc_switch_inside_critical_section")
            if kind_ == "line" and info and info[0] == "clone" and not (cache.lock.held and cache.lock.owner is cur):
                # the counters are copied (both fields in one source line, below the granularity of the
                # scheduler) while another thread may be changing them: the copy must be made under the lock
                raise Violation("C17:unlocked-access", f"T{cur.idx}: the statistics are copied without holding the cache lock")

        sched = Scheduler(rng, strategy=cfg["strategy"], schedule=(case.get("schedule") or {}).get(str(ri)) if case.get("schedule") else None, step_cap=20000, on_step=on_step, log=log)

        def on_acquired(thread, lock):
            rec = current_rec.get(thread.idx)
            if rec is not None and lock is cache.lock and rec["t_lock"] is None:
                rec["t_lock"] = VT.now

        sched.on_acquired = on_acquired

        def body(t, ops):
            for op in ops:
                op = list(op)
                if op[0] == "adv":
                    # time passes while other operations may be in flight
                    sched.yield_point("op")
                    dt = op[1]
                    if dt == "to_exp":
                        exps = sorted(v.value.expiration if kind == "lru" else v.expiration for v in list(cache.data.values()))
                        exps = [e for e in exps if e > VT.now]
                        dt = (exps[0] - VT.now) if exps else 1.0
                    VT.jump(dt)
                    clock_values.append(VT.now)
                    res.faults.inc("clock_advance_during_concurrent_ops")
                    log.add("adv", t.idx, round(VT.now, 3))
                    continue
                if op[0] == "put":
                    op = op[:4]  # (the "same object again" form belongs to the sequential tier)
                    uid[0] += 1
                    op[2] = uid[0]
                    prepare_answer(uid[0], op[3], VT.now + op[3], res)
                    op[3] = VT.now + op[3]
                seq[0] += 1
                rec = {"inv": seq[0], "ret": None, "op": tuple(op), "now": VT.now, "t_lock": None, "t_ret": None, "result": None, "thread": t.idx}
                history.append(rec)
                sched.yield_point("op")
                t.phase = "in_op"
                current_rec[t.idx] = rec
                try:
                    rec["result"] = r_apply(cache, kind, op, keys)
                finally:
                    t.phase = "idle"
                    current_rec[t.idx] = None
                    rec["t_ret"] = VT.now
                    if rec["t_lock"] is None:
                        rec["t_lock"] = rec["now"]  # an operation that takes no lock (set_max_size)
                seq[0] += 1
                rec["ret"] = seq[0]
                log.add("ret", t.idx, op[0], rec["result"])
                sched.yield_point("op")

        for ops in rnd["threads"]:
            sched.spawn(lambda t, ops=ops: body(t, ops))
        before_sw = sched.switches
        failure = sched.run()
        res.steps += sched.steps
        res.faults.inc("preemption_at_line", sched.line_yields)
        res.faults.inc("preemption_at_sync_op", sched.sync_yields)
        res.faults.inc("context_switch", sched.switches)
        res.trace = res.trace or {"schedule": {}}
        res.trace["schedule"][str(ri)] = sched.recorded
        if isinstance(failure, Deadlock):
            raise Violation("C17:deadlock", str(failure))
        if isinstance(failure, Violation):
            if failure.cls == "thread-exception":
                raise Violation("C17:exception-in-cache", failure.detail)
            if failure.cls == "step-cap":
                raise Violation("C17:livelock", failure.detail)
            raise failure
        if sched.switches > 0 and in_method:
            any_switch_inside[0] = True
        # overlap probes
        recs = history[round_start_index:]
        for a in recs:
            for b in recs:
                if a is b or a["thread"] == b["thread"]:
                    continue
                if a["inv"] < b["ret"] and b["inv"] < a["ret"]:
                    if a["op"][0] == "put" and b["op"][0] == "put" and a["op"][1] == b["op"][1]:
                        res.probes.inc("conc_two_threads_same_key_put")
                    if a["op"][0] == "get" and b["op"][0] == "flushall":
                        res.probes.inc("conc_get_overlaps_flush_all")
                    if a["op"][0] == "resize" and b["op"][0] == "put":
                        res.probes.inc("conc_resize_overlaps_put")
        # a rough state for the next round's "to_exp": replay the model along real-time order is not
        # possible here (order unknown); the linearizability search below decides.
    for h in history:
        if h["op"][0] == "get" and h["result"] is not None:
            # never a stale answer, whatever the interleaving
            exp = None
            for g in history:
                if g["op"][0] == "put" and g["op"][2] == h["result"]:
                    exp = g["op"][3]
            if exp is None:
                for op in case.get("pre", []):
                    pass
            if exp is not None and exp <= h["t_lock"]:
                raise Violation("C17:stale-answer", f"get returned answer {h['result']} whose expiration {exp - 1000.0} had passed when the operation obtained the cache lock (clock {h['t_lock'] - 1000.0}, returned at {h['t_ret'] - 1000.0})")
    try:
        ok, nodes = linearizable(kind, init, history, clock_values)
    except OverflowError:
        res.anomaly = "linearizability search cap exceeded"
        return
    res.probes.inc("wg_search_nodes", nodes)
    if not ok:
        desc = [f"T{h['thread']} {h['op']} -> {h['result']} [{h['inv']},{h['ret']}] clock {h['t_lock'] - 1000.0}..{h['t_ret'] - 1000.0}" for h in history]
        raise Violation("C17:not-linearizable", "no sequential order explains: " + "; ".join(desc))
    # structure at the end: ring and dict must agree with each other
    if kind == "lru":
        fwd = []
        n = cache.sentinel.next
        while n is not cache.sentinel and len(fwd) < 1000:
            fwd.append(n.key)
            if n.next.prev is not n:
                raise Violation("C17:ring-broken", "ring links inconsistent after concurrent history")
            n = n.next
        if set(fwd) != set(cache.data.keys()) or len(fwd) != len(cache.data):
            raise Violation("C17:ring-dict-mismatch", "ring and dict disagree after concurrent history")
    if cache.lock.held:
        raise Violation("C17:deadlock", "cache lock still held at the end")
    if any(h["t_ret"] > h["now"] for h in history):
        res.probes.inc("conc_clock_moved_while_op_in_flight")
    res.nontrivial = any_switch_inside[0]
    res.state("conc", len(history), kind)


def run_case(case, keep_log=False):
    res = RunResult()
    log = EventLog(keep=keep_log)
    _SPELL[0] = 0
    _ANSWERS.clear()
    try:
        if case["mode"] == "seq":
            _run_seq(case, res, log)
        else:
            _run_conc(case, res, log)
    except Violation as v:
        res.violation = (v.cls, v.detail)
    res.digest = log.digest()
    if keep_log:
        res.extra["log"] = log.lines
    return res


def make_explicit(case, trace):
    case = copy.deepcopy(case)
    if case["mode"] == "conc" and trace and "schedule" in trace:
        case["schedule"] = trace["schedule"]
    return case


def shrink(case):
    if case["mode"] == "seq":
        st = case["steps"]
        n = len(st)
        chunk = max(1, n // 2)
        while chunk >= 1:
            for start in range(0, n, chunk):
                c = copy.deepcopy(case)
                del c["steps"][start : start + chunk]
                yield c
            if chunk == 1:
                break
            chunk //= 2
        for key, simple in (("nkeys", 2), ("max_size", 1)):
            pass
        return
    for ri, rnd in enumerate(case["rounds"]):
        if len(case["rounds"]) > 1:
            c = copy.deepcopy(case)
            del c["rounds"][ri]
            if c.get("schedule"):
                c["schedule"] = None
            yield c
        for ti, ops in enumerate(rnd["threads"]):
            if len(rnd["threads"]) > 1:
                c = copy.deepcopy(case)
                del c["rounds"][ri]["threads"][ti]
                c["schedule"] = None
                yield c
            for oi in range(len(ops)):
                if len(ops) > 1:
                    c = copy.deepcopy(case)
                    del c["rounds"][ri]["threads"][ti][oi]
                    c["schedule"] = None
                    yield c
    for pi in range(len(case.get("pre", []))):
        c = copy.deepcopy(case)
        del c["pre"][pi]
        yield c
    sch = case.get("schedule")
    if sch:
        for ri, lst in sch.items():
            n = len(lst)
            chunk = max(1, n // 2)
            while chunk >= 1 and n:
                for start in range(0, n, chunk):
                    c = copy.deepcopy(case)
                    del c["schedule"][ri][start : start + chunk]
                    yield c
                if chunk == 1:
                    break
                chunk //= 2


def known_match(finding, case, violation):
    return False
