"""C16 -- stub resolution reaches the documented outcome under every fault sequence.

Engine: resolvesim.  Tier A: real dns.resolver.Resolver / dns.asyncresolver.Resolver
(_Resolution, BaseResolver, Answer, QueryMessage.resolve_chaining, caches) over scripted
dns.nameserver.Nameserver subclasses on a virtual clock; every script is executed by the
sync resolver, the async resolver on asyncio and on trio, and by a reference resolution model
written from the documentation; the four traces must be equal.  Tier B: the same resolvers over real
Do53Nameserver objects and the simulated network of netsim (datagram loss, garbage,
spoofing, TC->TCP, refused TCP, EOF, slow replies); sync and async traces must be equal
and the direct invariants must hold.
"""

import asyncio
import copy

from simkit.core import EventLog, RunResult, Violation, sub_rng
from simkit import netsim
from simkit.vtime import VT

PROP = "C16"
ENGINE = "resolvesim"
LEVEL = "exploration"
HANG_WATCHDOG = True  # (no simulator threads: a run that does not come back is a violation, see simkit.runner.run_guarded)
TIERS = {
    "quick": {"runs": 40000, "budget_s": 75},
    "thorough": {"runs": 3000000, "budget_s": 1500},
}
DET_EVERY = 100
RULE = (
    "one run = one script: resolver settings (1-4 nameservers, search list, domain, ndots, search flag, tcp, "
    "retry_servfail, raise_on_no_answer, timeout, lifetime, cache kind), 1-3 consecutive resolutions and per-server "
    "outcome sequences (answer, CNAME chain 0-17, no-data with/without SOA, NXDOMAIN, NXDOMAIN with answer, YXDOMAIN, "
    "SERVFAIL, other rcodes, FormError, EOFError, OSError, NotImplementedError, Timeout, Truncated on UDP/TCP, "
    "not-a-response, slow reply, clock jumps) executed by the sync resolver, the async resolver and the reference "
    "model (tier A), or a network fault script under real Do53 nameservers (tier B); non-trivial = at least one "
    "failure outcome or clock fault was consumed before the result; distinct = distinct event-log digests"
)
STATE_MEASURE = "distinct (remaining servers, servers left in round, retry-with-tcp, back-off, candidate index) tuples of the reference model"
COMPONENTS_REAL = [
    "dns.resolver._Resolution / BaseResolver / Resolver.resolve / Answer / Cache / LRUCache",
    "dns.asyncresolver.Resolver.resolve on a virtual-time asyncio loop (real dns._asyncio_backend.Backend.sleep)",
    "dns.message.QueryMessage.resolve_chaining, make_query, make_response",
    "dns.asyncresolver.Resolver.resolve under the real trio run loop on a clock reading simulated time (real dns._trio_backend.Backend.sleep / cancel scopes)",
    "tier B: dns.nameserver.Do53Nameserver, dns.query / dns.asyncquery udp+tcp, dns._asyncio_backend, dns._trio_backend",
]
COMPONENTS_STUB = ["nameservers (scripted outcomes, tier A) / network and peers (tier B)", "time module (virtual clock)", "sockets/event loop selector/trio clock and trio.socket.socket (tier B)"]
EXPECTED_PROBES = [
    "tc_then_tcp_retry",
    "truncation_over_tcp",
    "all_servers_removed",
    "two_or_more_backoff_rounds",
    "lifetime_expired",
    "cache_hit",
    "cached_nxdomain_skipped_candidate",
    "three_or_more_candidates",
    "lookup_in_another_class",
    "tierB_non_default_ports",
    "chain_length_15",
    "chain_length_16_plus",
    "small_backward_clock_step",
    "large_backward_clock_step",
    "nxdomain_all_candidates",
    "nxdomain_at_end_of_cname_chain",
    "yxdomain",
    "no_answer",
    "tierB_runs",
    "trio_backend_resolution",
]

_d = None
MAX_CHAIN = 16
# (world name, async flavour): the sync resolver, the async resolver on asyncio, the async resolver on trio
WORLDS = [("sync", False), ("async", True)]


def setup():
    global _d
    import dns
    import dns.resolver
    import dns.asyncresolver
    import dns.asyncbackend
    import dns.nameserver
    import dns.message
    import dns.rrset
    import dns.query
    import dns.asyncquery
    import dns.renderer
    import dns.entropy
    import dns.flags
    import dns.rcode

    _d = dns
    for mod in (dns.resolver, dns.asyncresolver, dns.query, dns.asyncquery, dns.message, dns.renderer):
        mod.time = VT
    dns.query.socket_factory = netsim.fake_socket_factory
    dns.query._wait_for = netsim.pump
    if netsim.have_trio():
        import dns._trio_backend

        netsim.install_trio_seam()
        if ("trio", "trio") not in WORLDS:
            WORLDS.append(("trio", "trio"))
    # message ids and record-order shuffles come from the run's PRNG
    dns.entropy.random_16 = lambda: _IDS.next()
    import dns.rdataset
    import dns.rdata

    for mod in (dns.rdataset, dns.rdata, dns.renderer, dns.resolver):
        mod.random = _IDS
    VT.reset(100.0)
    r = dns.resolver.Resolver(configure=False)
    r.lifetime = 3.0
    r.timeout = 1.0
    VT.jump(1.0)
    if r._compute_timeout(100.0) != 1.0:
        from simkit.core import HarnessError

        raise HarnessError("seam dns.resolver.time")


class _Ids:
    def __init__(self):
        self.n = 0

    def reset(self, seed):
        self.rng = sub_rng(seed, "ids")

    def next(self):
        return self.rng.randrange(65536)

    # the `random` module surface dnspython uses
    def shuffle(self, x):
        self.rng.shuffle(x)

    def choice(self, x):
        return self.rng.choice(x)

    def randint(self, a, b):
        return self.rng.randint(a, b)

    def random(self):
        return self.rng.random()


_IDS = _Ids()
_IDS.reset(0)

# ---------------------------------------------------------------------------
# generation

OUTCOMES = [
    ("answer", 10), ("cname", 5), ("nodata", 4), ("nxdomain", 6), ("nx_with_answer", 1), ("yxdomain", 1),
    ("servfail", 5), ("refused", 2), ("notimp", 1), ("rcode9", 1), ("formerr_rcode", 1),
    ("exc_formerror", 2), ("exc_eof", 2), ("exc_oserror", 2), ("exc_notimpl", 1), ("timeout", 5),
    ("truncated", 4), ("truncated_always", 1), ("not_response", 1), ("slow", 2), ("exc_badresponse", 1),
    ("cname_loop", 1), ("two_questions", 1), ("exc_valueerror", 2),
]


def _gen_outcome(rng):
    tot = sum(w for _, w in OUTCOMES)
    x = rng.randrange(tot)
    for k, w in OUTCOMES:
        if x < w:
            break
        x -= w
    o = {"k": k, "dt": rng.choice([0.0, 0.01, 0.05, 0.3, 0.9])}
    if k in ("answer", "cname"):
        o["ttl"] = rng.choice([0, 1, 30, 300])
    if k == "cname":
        o["len"] = rng.choice([1, 1, 2, 3, 14, 15, 16, 17])
        o["final"] = rng.random() < 0.7
        o["cttl"] = rng.choice([5, 100, 1000])
        if not o["final"]:
            # a negative answer at the end of the chain: the SOA belongs to the *target's* zone
            o["soa"] = rng.choice([None, [60, 30], [3, 3600], [2000, 2]])
            o["nx"] = rng.random() < 0.4
    if k in ("nodata", "nxdomain"):
        o["soa"] = rng.choice([None, [60, 30], [10, 3600], [0, 0]])
    if k == "slow":
        o["dt"] = rng.choice([0.6, 1.5, 2.5, 6.0])
        o["ttl"] = 300
    if rng.random() < 0.04:
        o["jump"] = rng.choice([-0.5, -0.9, -2.0, 5.0, 30.0])
    return o


def gen_case(seed, tier):
    rng = sub_rng(seed, "workload")
    if rng.random() < 0.25:
        return _gen_case_b(seed, rng)
    nserv = rng.choice([1, 2, 2, 3, 4])
    cfg = {
        "nserv": nserv,
        "search": [["s1.test."], [], ["s1.test.", "s2.test."], ["s1.test.", "s2.test.", "s3.test."]][rng.randrange(4)],
        "domain": rng.choice([".", "dom.test."]),
        "ndots": rng.choice([None, 0, 1, 2, 3]),
        "use_search_by_default": rng.random() < 0.5,
        "retry_servfail": rng.random() < 0.4,
        "timeout": rng.choice([0.5, 1.0, 2.0]),
        "lifetime": rng.choice([1.0, 3.0, 5.0, 5.0]),
        "cache": rng.choice([None, "cache", "lru", "lru"]),
        "lru_size": rng.choice([1, 2, 2, 50]),
        "flags": rng.choice([None, None, None, 0, 0x0110]),
    }
    scripts = [[_gen_outcome(rng) for _ in range(rng.choice([1, 3, 6, 12]))] for _ in range(nserv)]
    # what a server does when its script is exhausted
    defaults = [rng.choice(["answer", "timeout", "nxdomain", "servfail"]) for _ in range(nserv)]
    resolutions = []
    for _ in range(rng.choice([1, 1, 2, 3])):
        resolutions.append(
            {
                "qname": rng.choice(["www", "www", "a.b", "a.b.c", "www.example.", "x.y.z.w"]),
                "rdtype": rng.choice(["A", "A", "A", "TXT", "CNAME"]),
                "tcp": rng.random() < 0.2,
                "raise_on_no_answer": rng.random() < 0.7,
                "search": rng.choice([None, None, True, False]),
                "lifetime": rng.choice([None, None, None, 2.0, 2.0, 0.0]),
                "gap": rng.choice([0.0, 0.5, 2.0, 40.0]),
            }
        )
        if len(resolutions) > 1 and rng.random() < 0.5:
            # ask again for what was asked before (cache hits, cached negative answers)
            resolutions[-1]["qname"] = resolutions[-2]["qname"]
            if rng.random() < 0.6:
                resolutions[-1]["rdtype"] = resolutions[-2]["rdtype"]
            resolutions[-1]["gap"] = rng.choice([0.0, 0.0, 0.5, 2.0, 40.0])
        if rng.random() < 0.15:
            # a lookup in another class (the cache is keyed by class too)
            resolutions[-1]["rdclass"] = "CH"
            resolutions[-1]["rdtype"] = rng.choice(["TXT", "TXT", "CNAME"])
    return {"prop": PROP, "seed": seed, "tier": "A", "cfg": cfg, "scripts": scripts, "defaults": defaults, "resolutions": resolutions}


# ---------------------------------------------------------------------------
# tier A: scripted nameservers


class _World:
    def __init__(self, case):
        self.case = case
        self.pos = [0] * case["cfg"]["nserv"]
        self.trace = []
        self.t0 = VT.now
        self.consumed = []
        self.bad_flags = []

    def next_outcome(self, idx):
        s = self.case["scripts"][idx]
        if self.pos[idx] < len(s):
            o = s[self.pos[idx]]
            self.pos[idx] += 1
        else:
            o = {"k": self.case["defaults"][idx], "dt": 0.01, "ttl": 60, "soa": None}
        return o


def build_response(request, o, idx, tcp):
    """Returns message or exception for an outcome (independent of the clock)."""
    dns = _d
    k = o["k"]
    q = request.question[0]
    cls = dns.rdataclass.to_text(q.rdclass)
    if k == "exc_formerror":
        return dns.exception.FormError("scripted")
    if k == "exc_badresponse":
        return dns.query.BadResponse("scripted")
    if k == "exc_eof":
        return EOFError("scripted")
    if k == "exc_oserror":
        return OSError(111, "scripted")
    if k == "exc_notimpl":
        return NotImplementedError("scripted")
    if k == "exc_valueerror":
        # an error of no particular family (what the DoH transport raises for a non-2xx status)
        return ValueError("scripted: responded with status code 503")
    if k == "timeout":
        return dns.exception.Timeout(timeout=0)
    if k == "truncated_always" or (k == "truncated" and not tcp):
        r = dns.message.make_response(request)
        r.flags |= dns.flags.TC
        return dns.message.Truncated(message=r)
    r = dns.message.make_response(request)
    if k in ("answer", "truncated", "slow"):
        _add_answer(r, q.name, q, o.get("ttl", 300), idx)
    elif k == "cname":
        name = q.name
        if q.rdtype == dns.rdatatype.CNAME:
            _add_answer(r, name, q, o["ttl"], idx)
        else:
            for i in range(o["len"]):
                tgt = dns.name.from_text(f"c{i}.chain.test.")
                r.answer.append(dns.rrset.from_text(name, o["cttl"], cls, "CNAME", tgt.to_text()))
                name = tgt
            if o["final"]:
                _add_answer(r, name, q, o["ttl"], idx)
            else:
                if o.get("soa") is not None:
                    r.authority.append(dns.rrset.from_text(dns.name.from_text("chain.test."), o["soa"][0], cls, "SOA", f"ns. host. 1 2 3 4 {o['soa'][1]}"))
                if o.get("nx"):
                    r.set_rcode(dns.rcode.NXDOMAIN)
    elif k == "cname_loop":
        if q.rdtype == dns.rdatatype.CNAME:
            _add_answer(r, q.name, q, 60, idx)
        else:
            other = dns.name.from_text("loop.chain.test.")
            r.answer.append(dns.rrset.from_text(q.name, 60, cls, "CNAME", other.to_text()))
            r.answer.append(dns.rrset.from_text(other, 60, cls, "CNAME", q.name.to_text()))
    elif k == "two_questions":
        r.question.append(dns.rrset.RRset(dns.name.from_text("second.question.test."), dns.rdataclass.IN, dns.rdatatype.A))
        _add_answer(r, q.name, q, 60, idx)
    elif k == "nodata":
        _add_soa(r, q.name, o.get("soa"))
    elif k == "nxdomain":
        r.set_rcode(dns.rcode.NXDOMAIN)
        _add_soa(r, q.name, o.get("soa"))
    elif k == "nx_with_answer":
        r.set_rcode(dns.rcode.NXDOMAIN)
        _add_answer(r, q.name, q, 60, idx)
    elif k == "yxdomain":
        r.set_rcode(dns.rcode.YXDOMAIN)
    elif k == "servfail":
        r.set_rcode(dns.rcode.SERVFAIL)
    elif k == "refused":
        r.set_rcode(dns.rcode.REFUSED)
    elif k == "notimp":
        r.set_rcode(dns.rcode.NOTIMP)
    elif k == "rcode9":
        r.set_rcode(dns.rcode.NOTAUTH)
    elif k == "formerr_rcode":
        r.set_rcode(dns.rcode.FORMERR)
    elif k == "not_response":
        r.flags &= ~dns.flags.QR
    else:
        raise ValueError(k)
    # a nameserver hands back parsed wire data (indexed sections), so do the same
    return dns.message.from_wire(r.to_wire())


def _add_answer(r, name, q, ttl, idx):
    dns = _d
    cls = dns.rdataclass.to_text(q.rdclass)
    if q.rdtype == dns.rdatatype.A:
        r.answer.append(dns.rrset.from_text(name, ttl, cls, "A", f"10.9.{idx}.1", f"10.9.{idx}.2"))
    elif q.rdtype == dns.rdatatype.TXT:
        r.answer.append(dns.rrset.from_text(name, ttl, cls, "TXT", f'"from-ns{idx}"'))
    else:
        r.answer.append(dns.rrset.from_text(name, ttl, cls, "CNAME", "real.target.test."))


def _add_soa(r, qname, soa):
    dns = _d
    if soa is None:
        return
    owner = qname.parent() if len(qname) > 1 else qname
    cls = dns.rdataclass.to_text(r.question[0].rdclass)
    r.authority.append(dns.rrset.from_text(owner, soa[0], cls, "SOA", f"ns. host. 1 2 3 4 {soa[1]}"))


def plan(o, request, timeout, tcp, idx):
    """(dt, result) : how long the call takes and what it yields."""
    dns = _d
    res = build_response(request, o, idx, tcp)
    dt = o.get("dt", 0.0)
    if isinstance(res, dns.exception.Timeout) or dt >= timeout:
        return timeout, dns.exception.Timeout(timeout=timeout)
    return dt, res


def make_ns_class():
    dns = _d

    class ScriptedNS(dns.nameserver.Nameserver):
        def __init__(self, idx, world):
            super().__init__()
            self.idx = idx
            self.world = world

        def __str__(self):
            return f"ns{self.idx}"

        def kind(self):
            return "scripted"

        def is_always_max_size(self):
            return False

        def answer_nameserver(self):
            return f"10.0.0.{self.idx + 1}"

        def answer_port(self):
            return 53

        def _begin(self, request, timeout, max_size):
            w = self.world
            o = w.next_outcome(self.idx)
            q0 = request.question[0]
            w.trace.append(("q", self.idx, q0.name.to_text() + ("" if q0.rdclass == dns.rdataclass.IN else "/" + dns.rdataclass.to_text(q0.rdclass)), bool(max_size), round(VT.now - w.t0, 6), round(timeout, 6)))
            w.consumed.append(o["k"])
            want_flags = w.case["cfg"].get("flags")
            want_flags = 0x0100 if want_flags is None else want_flags  # (default: recursion desired)
            if (request.flags & 0x87FF) != want_flags and not w.bad_flags:
                w.bad_flags.append((self.idx, request.flags))
            return o, plan(o, request, timeout, bool(max_size), self.idx)

        def query(self, request, timeout, source, source_port, max_size=False, one_rr_per_rrset=False, ignore_trailing=False):
            o, (dt, res) = self._begin(request, timeout, max_size)
            VT.advance(dt)
            if "jump" in o:
                VT.jump(o["jump"])
            if isinstance(res, BaseException):
                raise res
            return res

        async def async_query(self, request, timeout, source, source_port, max_size, backend, one_rr_per_rrset=False, ignore_trailing=False):
            o, (dt, res) = self._begin(request, timeout, max_size)
            if dt > 0:
                await backend.sleep(dt)
            if "jump" in o:
                VT.jump(o["jump"])
            if isinstance(res, BaseException):
                raise res
            return res

    return ScriptedNS


_NS = None


def _make_resolver(case, world, is_async):
    dns = _d
    global _NS
    if _NS is None:
        _NS = make_ns_class()
    cfg = case["cfg"]
    r = dns.asyncresolver.Resolver(configure=False) if is_async else dns.resolver.Resolver(configure=False)
    r.nameservers = [_NS(i, world) for i in range(cfg["nserv"])]
    r.search = [dns.name.from_text(s) for s in cfg["search"]]
    r.domain = dns.name.from_text(cfg["domain"])
    r.ndots = cfg["ndots"]
    r.use_search_by_default = cfg["use_search_by_default"]
    r.retry_servfail = cfg["retry_servfail"]
    r.timeout = cfg["timeout"]
    r.lifetime = cfg["lifetime"]
    r.rotate = False
    if cfg.get("flags") is not None:
        r.set_flags(cfg["flags"])
    if cfg["cache"] == "cache":
        r.cache = dns.resolver.Cache()
    elif cfg["cache"] == "lru":
        r.cache = dns.resolver.LRUCache(cfg.get("lru_size", 50))
    return r


def _norm(text):
    return None if text is None else "\n".join(sorted(text.split("\n")))


def _result_of(ans):
    return (
        "answer",
        ans.qname.to_text(),
        ans.canonical_name.to_text(),
        None if ans.rrset is None else _norm(ans.rrset.to_text()),
        round(ans.expiration - VT.now, 6),
        ans.nameserver,
        ans.port,
    )


def _cache_dump(r):
    c = r.cache
    if c is None:
        return None
    out = []
    for key, v in c.data.items():
        a = v.value if isinstance(v, _d.resolver.LRUCacheNode) else v
        out.append((key[0].to_text(), int(key[1]), int(key[2]), round(a.expiration, 6), a.response.rcode().name))
    return sorted(out)


def run_world(case, is_async):
    """Returns the full trace of all resolutions of the case."""
    dns = _d
    VT.reset(50000.0)
    _IDS.reset(case["seed"])
    world = _World(case)
    r = _make_resolver(case, world, is_async)
    out = []
    for res in case["resolutions"]:
        VT.jump(res["gap"])
        world.trace = []
        world.t0 = VT.now
        kw = dict(rdtype=res["rdtype"], rdclass=res.get("rdclass", "IN"), tcp=res["tcp"], raise_on_no_answer=res["raise_on_no_answer"], lifetime=res["lifetime"], search=res["search"])
        try:
            if is_async:
                backend = dns.asyncbackend.get_backend("trio" if is_async == "trio" else "asyncio")

                async def go():
                    return await r.resolve(res["qname"], backend=backend, **kw)

                ans, exc = (netsim.run_trio if is_async == "trio" else netsim.run_async)(go)
                if exc is not None:
                    raise exc
            else:
                ans = r.resolve(res["qname"], **kw)
            result = _result_of(ans)
        except netsim.SimDeadlock:
            result = ("hang",)
        except dns.resolver.NXDOMAIN as e:
            # what the exception tells the caller: the names tried, in order, and a response for each
            result = ("exc", "NXDOMAIN", tuple(n.to_text() for n in e.qnames()), tuple(sorted(k.to_text() for k in e.responses().keys())))
        except (dns.resolver.NoNameservers, dns.resolver.LifetimeTimeout) as e:
            errs = e.kwargs.get("errors") or []
            result = ("exc", type(e).__name__, tuple((x[0], bool(x[1]), x[2], type(x[3]).__name__) for x in errs))
        except dns.exception.DNSException as e:
            result = ("exc", type(e).__name__)
        except Exception as e:  # noqa: BLE001
            result = ("exc!", type(e).__name__, str(e)[:80])
        out.append({"trace": world.trace, "result": result, "end": round(VT.now - world.t0, 6), "cache": _cache_dump(r)})
    return out, world


# ---------------------------------------------------------------------------
# the reference resolution model (written from the resolver documentation)


def candidates(cfg, res):
    qname = res["qname"]
    if qname.endswith("."):
        return [qname]
    search = res["search"] if res["search"] is not None else cfg["use_search_by_default"]
    absn = qname + "."
    if not search:
        return [absn]
    if cfg["search"]:
        lst = list(cfg["search"])
    elif cfg["domain"] != ".":
        lst = [cfg["domain"]]
    else:
        lst = []
    ndots = 1 if cfg["ndots"] is None else cfg["ndots"]
    out = [qname + "." + s for s in lst]
    nlabels = qname.count(".") + 1
    if nlabels > ndots:
        out.insert(0, absn)
    else:
        out.append(absn)
    return out


class _MClock:
    def __init__(self, now):
        self.now = now


def _m_min_ttl(o, rdtype):
    """(kind of NOERROR/NXDOMAIN response, min ttl, has answer, chain problem) for an outcome."""
    k = o["k"]
    MAXT = 2**32 - 1
    if k in ("answer", "truncated", "slow"):
        return ("answer", o.get("ttl", 300))
    if k == "cname":
        if rdtype == "CNAME":
            return ("answer", o["ttl"])
        if o["len"] >= MAX_CHAIN:
            return ("broken", None)
        if o["final"]:
            return ("answer", min(o["cttl"], o["ttl"]))
        # the chain ends without an answer: negative TTL from the SOA covering the chain's end
        soa = o.get("soa")
        if soa is None:
            return ("nodata", o["cttl"])
        return ("nodata", min(o["cttl"], soa[0], soa[1]))
    if k == "cname_loop":
        if rdtype == "CNAME":
            return ("answer", 60)
        return ("broken", None)  # the chain never ends: ChainTooLong
    if k == "two_questions":
        return ("broken", None)  # a response must carry exactly one question
    if k in ("nodata", "nxdomain"):
        soa = o.get("soa")
        if soa is None:
            return ("nodata", MAXT)
        return ("nodata", min(soa[0], soa[1]))
    return (None, None)


def model_run(case, res_states=None):
    cfg = case["cfg"]
    now = 50000.0
    pos = [0] * cfg["nserv"]
    cache = {} if cfg["cache"] else None
    lru_order = []
    lru_size = cfg.get("lru_size", 50)
    out = []
    probes = []
    states = set()

    def next_outcome(i):
        s = case["scripts"][i]
        if pos[i] < len(s):
            o = s[pos[i]]
            pos[i] += 1
            return o
        return {"k": case["defaults"][i], "dt": 0.01, "ttl": 60, "soa": None}

    for res in case["resolutions"]:
        now += res["gap"]
        t0 = now
        trace = []
        lifetime = cfg["lifetime"] if res["lifetime"] is None else res["lifetime"]
        result = None
        cands = candidates(cfg, res)
        cand_start = 0
        if len(cands) >= 3:
            probes.append("three_or_more_candidates")
        nx_count = 0
        rdtype = res["rdtype"]
        cls = res.get("rdclass", "IN")
        csfx = "" if cls == "IN" else "/" + cls
        if cls != "IN":
            probes.append("lookup_in_another_class")

        def cache_get(key):
            if cache is None:
                return None
            v = cache.get(key)
            if v is None or v["exp"] <= now:
                if v is not None and cfg["cache"] == "lru":
                    del cache[key]
                    lru_order.remove(key)
                return None
            if cfg["cache"] == "lru":
                lru_order.remove(key)
                lru_order.insert(0, key)  # most recently used first
            return v

        def cache_put(key, v):
            if cfg["cache"] == "lru":
                if key in cache:
                    lru_order.remove(key)
                    del cache[key]
                while len(lru_order) >= lru_size:
                    old = lru_order.pop()
                    del cache[old]
                    probes.append("lru_eviction_in_resolver_cache")
                lru_order.insert(0, key)
            cache[key] = v

        try:
            for ci, cand in enumerate(cands):
                cand_start = len(trace)
                # cache
                hit = cache_get((cand.lower(), rdtype, cls))
                if hit is not None:
                    probes.append("cache_hit")
                    if hit["rrset"] is False and res["raise_on_no_answer"]:
                        result = ("exc", "NoAnswer")
                        probes.append("no_answer")
                        break
                    result = ("answerc", hit)
                    break
                hit = cache_get((cand.lower(), "ANY", cls))
                if hit is not None and hit["nx"]:
                    probes.append("cached_nxdomain_skipped_candidate")
                    nx_count += 1
                    continue
                servers = list(range(cfg["nserv"]))
                current = list(servers)
                backoff = 0.1
                retry_tcp = False
                cur = None
                rounds = 0
                done = False
                while not done:
                    if retry_tcp:
                        tcp = True
                        retry_tcp = False
                        probes.append("tc_then_tcp_retry")
                    else:
                        if not current:
                            if not servers:
                                probes.append("all_servers_removed")
                                raise _MExc("NoNameservers")
                            current = list(servers)
                            now += backoff  # the back-off sleep
                            backoff = min(backoff * 2, 2)
                            rounds += 1
                            if rounds == 2:
                                probes.append("two_or_more_backoff_rounds")
                        cur = current.pop(0)
                        tcp = res["tcp"]
                    states.add((tuple(servers), len(current), tcp, backoff, ci))
                    # lifetime budget
                    duration = now - t0
                    if duration < 0:
                        if duration < -1:
                            probes.append("large_backward_clock_step")
                            raise _MExc("LifetimeTimeout")
                        probes.append("small_backward_clock_step")
                        duration = 0
                    if duration >= lifetime:
                        probes.append("lifetime_expired")
                        raise _MExc("LifetimeTimeout")
                    timeout = min(lifetime - duration, cfg["timeout"])
                    o = next_outcome(cur)
                    trace.append(("q", cur, cand + csfx, tcp, round(now - t0, 6), round(timeout, 6)))
                    k = o["k"]
                    dt = o.get("dt", 0.0)
                    timed_out = k == "timeout" or dt >= timeout
                    now += timeout if timed_out else dt
                    if "jump" in o:
                        now += o["jump"]
                    if timed_out:
                        continue  # the server stays; try the next one
                    if k in ("exc_formerror", "exc_badresponse", "exc_eof", "exc_oserror", "exc_notimpl"):
                        servers.remove(cur)
                        continue
                    if k == "exc_valueerror":
                        continue  # any other failure of the attempt: recorded, the server stays in the mix
                    if k == "truncated_always" or (k == "truncated" and not tcp):
                        if tcp:
                            probes.append("truncation_over_tcp")
                            servers.remove(cur)
                        else:
                            retry_tcp = True
                        continue
                    if k == "cname" and rdtype != "CNAME" and not o["final"] and o.get("nx") and o["len"] < MAX_CHAIN:
                        kind, ttl = _m_min_ttl(o, rdtype)
                        if cache is not None:
                            cache_put((cand.lower(), "ANY", cls), {"qname": cand, "exp": now + ttl, "rrset": False, "nx": True, "o": o, "ns": cur, "rdtype": "ANY", "cls": cls})
                        nx_count += 1
                        probes.append("nxdomain_at_end_of_cname_chain")
                        done = True
                        continue
                    if k in ("answer", "truncated", "slow", "cname", "nodata", "not_response", "cname_loop", "two_questions"):
                        if k == "not_response":
                            servers.remove(cur)
                            continue
                        kind, ttl = _m_min_ttl(o, rdtype)
                        if k == "cname" and rdtype != "CNAME":
                            if o["len"] == MAX_CHAIN - 1:
                                probes.append("chain_length_15")
                            if o["len"] >= MAX_CHAIN:
                                probes.append("chain_length_16_plus")
                        if kind == "broken":
                            servers.remove(cur)
                            continue
                        ans = {"qname": cand, "exp": now + ttl, "rrset": kind == "answer", "nx": False, "o": o, "ns": cur, "rdtype": rdtype, "cls": cls}
                        if cache is not None:
                            cache_put((cand.lower(), rdtype, cls), ans)
                        if kind != "answer" and res["raise_on_no_answer"]:
                            probes.append("no_answer")
                            raise _MExc("NoAnswer")
                        result = ("answer", ans)
                        done = True
                        continue
                    if k == "nxdomain":
                        kind, ttl = _m_min_ttl(o, rdtype)
                        if cache is not None:
                            cache_put((cand.lower(), "ANY", cls), {"qname": cand, "exp": now + ttl, "rrset": False, "nx": True, "o": o, "ns": cur, "rdtype": "ANY", "cls": cls})
                        nx_count += 1
                        done = True
                        continue
                    if k == "nx_with_answer":
                        servers.remove(cur)
                        continue
                    if k == "yxdomain":
                        probes.append("yxdomain")
                        raise _MExc("YXDOMAIN")
                    # any other rcode
                    if k != "servfail" or not cfg["retry_servfail"]:
                        servers.remove(cur)
                    continue
                if result is not None:
                    break
            if result is None:
                probes.append("nxdomain_all_candidates")
                result = ("exc", "NXDOMAIN")
        except _MExc as e:
            result = ("exc", e.name)
        out.append({"trace": trace, "result": result, "end": round(now - t0, 6), "now": now, "cache": None if cache is None else dict(cache),
                    "cands": cands, "errs": [(q[1], q[3]) for q in trace[cand_start:]]})
    return out, probes, states


class _MExc(Exception):
    def __init__(self, name):
        super().__init__(name)
        self.name = name


def _expected_rrset_text(ans, idx_unused=None):
    """Text of the answer rrset the real resolver must return for a model answer."""
    dns = _d
    o = ans["o"]
    ns = ans["ns"]
    qname = dns.name.from_text(ans["qname"])
    rdtype = ans["rdtype"]
    if o["k"] == "cname_loop":
        o = dict(o, ttl=60)
    if not ans["rrset"]:
        return qname, None
    name = qname
    if o["k"] == "cname" and rdtype != "CNAME":
        name = dns.name.from_text(f"c{o['len'] - 1}.chain.test.")
    ttl = o.get("ttl", 300)
    cls = ans.get("cls", "IN")
    if rdtype == "A":
        rr = dns.rrset.from_text(name, ttl, cls, "A", f"10.9.{ns}.1", f"10.9.{ns}.2")
    elif rdtype == "TXT":
        rr = dns.rrset.from_text(name, ttl, cls, "TXT", f'"from-ns{ns}"')
    else:
        rr = dns.rrset.from_text(name, ttl, cls, "CNAME", "real.target.test.")
    return name, _norm(rr.to_text())


def compare_with_model(case, real, model, world_name):
    for i, (r, m) in enumerate(zip(real, model)):
        tag = f"[{world_name}] resolution {i} ({case['resolutions'][i]['qname']} {case['resolutions'][i]['rdtype']})"
        if r["trace"] != m["trace"]:
            # first difference
            j = 0
            while j < min(len(r["trace"]), len(m["trace"])) and r["trace"][j] == m["trace"][j]:
                j += 1
            a = r["trace"][j] if j < len(r["trace"]) else None
            b = m["trace"][j] if j < len(m["trace"]) else None
            raise Violation(
                "C16:query-sequence",
                f"{tag}: query #{j} is {a}, documented behaviour gives {b} (server, name, tcp, send time, timeout); previous {r['trace'][max(0, j - 3):j]}",
            )
        rr, mr = r["result"], m["result"]
        if mr[0] == "exc":
            if rr[:2] != ("exc", mr[1]):
                raise Violation("C16:wrong-result", f"{tag}: real {rr}, documented outcome is {mr[1]}")
            if mr[1] == "NXDOMAIN":
                want_q = tuple(_d.name.from_text(c).to_text() for c in m["cands"])
                if tuple(x.lower() for x in rr[2]) != tuple(x.lower() for x in want_q) or sorted(x.lower() for x in rr[3]) != sorted(set(x.lower() for x in want_q)):
                    raise Violation("C16:exception-content", f"{tag}: NXDOMAIN reports qnames {rr[2]} with responses for {rr[3]}; the candidate names were {want_q}")
            elif mr[1] in ("NoNameservers", "LifetimeTimeout"):
                got_e = [(x[0], x[1]) for x in rr[2]]
                want_e = [(f"ns{i}", t) for i, t in m["errs"]]
                if got_e != want_e or any(x[2] != 53 for x in rr[2]):
                    raise Violation("C16:exception-content", f"{tag}: {mr[1]} lists the failed attempts {rr[2]}; the attempts on the last candidate name were {want_e}")
        else:
            ans = mr[1]
            if rr[0] != "answer":
                raise Violation("C16:wrong-result", f"{tag}: real {rr}, documented outcome is an answer for {ans['qname']}")
            name, text = _expected_rrset_text(ans)
            exp_rel = round(ans["exp"] - m["now"], 6)
            want = ("answer", _d.name.from_text(ans["qname"]).to_text(), name.to_text() if text is not None or ans["o"]["k"] == "cname" else _d.name.from_text(ans["qname"]).to_text(), text, exp_rel)
            if ans["o"]["k"] == "cname" and ans["rdtype"] != "CNAME" and not ans["rrset"]:
                # dangling chain: canonical name is the last target
                want = (want[0], want[1], f"c{ans['o']['len'] - 1}.chain.test.", None, exp_rel)
            if rr[:4] != want[:4]:
                raise Violation("C16:wrong-answer", f"{tag}: real {rr[:4]}, documented {want[:4]}")
            if (rr[5], rr[6]) != (f"10.0.0.{ans['ns'] + 1}", 53):
                raise Violation("C16:wrong-answer", f"{tag}: the answer names {rr[5]} port {rr[6]} as its source, it came from ns{ans['ns']} (10.0.0.{ans['ns'] + 1} port 53)")
            if abs(rr[4] - want[4]) > 1e-5:
                raise Violation("C16:wrong-expiration", f"{tag}: answer expires in {rr[4]}s, minimum TTL over the chain gives {want[4]}s")
        if abs(r["end"] - m["end"]) > 1e-5:
            raise Violation("C16:timing", f"{tag}: took {r['end']}s of simulated time, documented behaviour {m['end']}s")
        # cache contents
        if m["cache"] is not None:
            rkey = lambda c: (c[0].lower(), _d.rdatatype.to_text(c[1]), _d.rdataclass.to_text(c[2]))  # noqa: E731
            # the real caches may have dropped expired entries (LRU get) or kept them (plain): compare live ones
            nowm = m["now"]
            # entries expiring exactly now are borderline under float accumulation: leave them out
            border = set(tuple(k) for k, v in m["cache"].items() if abs(v["exp"] - nowm) < 1e-6)
            border |= set(rkey(c) for c in r["cache"] if abs(c[3] - nowm) < 1e-6)
            ml = sorted(tuple(k) for k, v in m["cache"].items() if v["exp"] > nowm and tuple(k) not in border)
            rl = sorted(x for x in (rkey(c) for c in r["cache"] if c[3] > nowm) if x not in border)
            if ml != rl:
                raise Violation("C16:cache-keys", f"{tag}: live cache keys {rl}, documented {ml}")


def direct_invariants(case, real, world_name):
    cfg = case["cfg"]
    for i, r in enumerate(real):
        res = case["resolutions"][i]
        lifetime = cfg["lifetime"] if res["lifetime"] is None else res["lifetime"]
        tag = f"[{world_name}] resolution {i}"
        tr = r["trace"]
        for j, (_, idx, name, tcp, t, timeout) in enumerate(tr):
            if t + timeout > lifetime + 1e-6 and t >= 0:
                raise Violation("C16:deadline-after-lifetime", f"{tag}: query #{j} sent at {t} with timeout {timeout} exceeds lifetime {lifetime}")
        if r["result"] == ("hang",):
            raise Violation("C16:no-termination", f"{tag}: resolution never terminates")
        if r["result"][0] == "exc!":
            raise Violation("C16:unexpected-exception", f"{tag}: {r['result']}")
        if r["end"] > lifetime + 2.0 + max(cfg["timeout"], 0) + 31:
            raise Violation("C16:no-termination", f"{tag}: returned after {r['end']}s with lifetime {lifetime}")


def cfg_flags_text(case):
    f = case["cfg"].get("flags")
    return "the default (RD)" if f is None else f"set_flags({f:#06x})"


def _run_a(case, res, log):
    model, probes, states = model_run(case)
    worlds = {}
    for name, is_async in WORLDS:
        if case.get("world") not in (None, name):
            continue
        real, world = run_world(case, is_async)
        if name == "trio":
            res.probes.inc("trio_backend_resolution", len(real))
        worlds[name] = real
        if world.bad_flags:
            bi, bf = world.bad_flags[0]
            raise Violation("C16:request-flags", f"[{name}] the request sent to ns{bi} carries header flags {bf:#06x}; the resolver is configured with {cfg_flags_text(case)}")
        direct_invariants(case, real, name)
        compare_with_model(case, real, model, name)
        res.sim_seconds += sum(r["end"] for r in real)
        for k in world.consumed:
            res.faults.inc("outcome_" + k)
    names = [n for n, _ in WORLDS if n in worlds]
    for other in names[1:]:
        if worlds[names[0]] != worlds[other]:
            for i, (a, b) in enumerate(zip(worlds[names[0]], worlds[other])):
                if a != b:
                    raise Violation("C16:sync-async-differ", f"resolution {i}: {names[0]} {a['result']} end {a['end']} vs {other} {b['result']} end {b['end']}; traces equal: {a['trace'] == b['trace']}")
    for p in probes:
        res.probes.inc(p)
    for s in states:
        res.state(s)
    for m in model:
        log.add(m["trace"], m["result"][0], m["result"][1] if m["result"][0] == "exc" else m["result"][1]["qname"], m["end"])
    fails = [k for s in case["scripts"] for o in s for k in [o["k"]] if k not in ("answer",)]
    res.nontrivial = any(len(m["trace"]) > 1 for m in model) or any("jump" in o for s in case["scripts"] for o in s)
    res.steps = sum(len(m["trace"]) for m in model)


# ---------------------------------------------------------------------------
# tier B: real Do53 nameservers over the simulated network


B_BEHAVIOURS = ["answer", "drop", "garbage_then_answer", "spoof_then_answer", "wrongid_then_answer", "tc_then_tcp", "tc_tcp_refused", "tc_tcp_eof", "tc_tcp_garbage", "slow", "late", "nxdomain", "servfail", "malformed_only", "icmp"]


def _gen_case_b(seed, rng):
    nserv = rng.choice([1, 2, 3])
    cfg = {
        "nserv": nserv,
        "retry_servfail": rng.random() < 0.4,
        "timeout": rng.choice([0.5, 1.0]),
        "lifetime": rng.choice([1.5, 3.0]),
        "tcp": rng.random() < 0.15,
        "raise_on_no_answer": True,
        # where the servers listen: the default port, one resolver-wide port, a port per server
        # (nameserver_ports), or nameserver objects carrying their own port
        "ports": rng.choice(["default", "default", "resolver_port", "per_server", "objects"]),
    }
    beh = [[rng.choice(B_BEHAVIOURS) for _ in range(rng.choice([1, 2, 4]))] for _ in range(nserv)]
    return {"prop": PROP, "seed": seed, "tier": "B", "cfg": cfg, "behaviours": beh, "qname": "www.example.", "rdtype": "A"}


class _BServer:
    """Per-server behaviour, realised lazily when the query (and so its id) is known."""

    def __init__(self, idx, behaviours):
        self.idx = idx
        self.behaviours = behaviours
        self.n = 0
        self.log = []

    def next(self):
        b = self.behaviours[self.n] if self.n < len(self.behaviours) else "drop"
        self.n += 1
        return b


class _LazyUdp(netsim.UdpScript):
    def __init__(self, server, addr, net):
        super().__init__([])
        self.server = server
        self.addr = addr
        self.net = net

    @property
    def deliveries(self):
        return self._deliveries

    @deliveries.setter
    def deliveries(self, v):
        self._deliveries = v


def _b_reply(qwire, idx, rcode=0, tc=False):
    dns = _d
    q = dns.message.from_wire(qwire)
    r = dns.message.make_response(q)
    r.set_rcode(rcode)
    if rcode == 0 and not tc:
        r.answer.append(dns.rrset.from_text(q.question[0].name, 60, "IN", "A", f"10.8.{idx}.1"))
    if tc:
        r.flags |= dns.flags.TC
    return r.to_wire()


class _BNet:
    """Wraps netsim.Network: realises a behaviour at send time."""

    def __init__(self, case, trace):
        self.case = case
        self.trace = trace
        self.servers = [_BServer(i, b) for i, b in enumerate(case["behaviours"])]
        self.t0 = VT.now
        self.sockets = []
        self.pending_tcp = {}
        self.bad_ports = []

    def _server_for(self, dest, how="udp"):
        idx = int(dest[0].split(".")[-1]) - 1
        if dest[1] != _b_port(self.case["cfg"], idx):
            self.bad_ports.append((how, idx, dest[1]))
        return self.servers[idx]

    # netsim.Network interface
    def udp_for(self, dest):
        srv = self._server_for(dest)
        net = self

        class S:
            sent = []

            @property
            def deliveries(self_inner):
                return self_inner._d

        s = S()
        s.sent = _Sent(lambda data: net._on_udp(srv, dest, data, s))
        s._d = []
        return s

    def _on_udp(self, srv, dest, data, script):
        b = srv.next()
        self.trace.append(("udp", srv.idx, round(VT.now - self.t0, 6), b))
        src = (dest[0], dest[1])
        d = []
        if b == "answer":
            d = [(0.01, _b_reply(data, srv.idx), src)]
        elif b == "drop":
            d = []
        elif b == "garbage_then_answer":
            d = [(0.01, b"\x00\x01garbage", src), (0.02, data[:2] + b"\x80\x00\x00\x01\x00\x00", src), (0.05, _b_reply(data, srv.idx), src)]
        elif b == "spoof_then_answer":
            d = [(0.01, _b_reply(data, 99), ("10.66.66.66", 53)), (0.05, _b_reply(data, srv.idx), src)]
        elif b == "wrongid_then_answer":
            w = bytearray(_b_reply(data, 98))
            w[0] ^= 0x55
            d = [(0.01, bytes(w), src), (0.05, _b_reply(data, srv.idx), src)]
        elif b in ("tc_then_tcp", "tc_tcp_refused", "tc_tcp_eof", "tc_tcp_garbage"):
            d = [(0.01, _b_reply(data, srv.idx, tc=True), src)]
            self.pending_tcp[srv.idx] = b
        elif b == "slow":
            d = [(self.case["cfg"]["timeout"] * 0.8, _b_reply(data, srv.idx), src)]
        elif b == "late":
            d = [(self.case["cfg"]["timeout"] * 1.5, _b_reply(data, srv.idx), src)]
        elif b == "nxdomain":
            d = [(0.01, _b_reply(data, srv.idx, rcode=3), src)]
        elif b == "servfail":
            d = [(0.01, _b_reply(data, srv.idx, rcode=2), src)]
        elif b == "malformed_only":
            g = _b_reply(data, srv.idx)
            d = [(0.01, g[:-3], src), (0.02, g + b"zz", src)]
        elif b == "icmp":
            d = [(0.01, ConnectionRefusedError(111, "refused"), src)]
        script._d = d
        return d

    def tcp_for(self, dest):
        srv = self._server_for(dest, "tcp")
        b = self.pending_tcp.pop(srv.idx, None)
        if b is None:
            b = srv.next()
            if b not in ("answer", "nxdomain", "servfail", "drop"):
                b = "answer" if b not in ("tc_tcp_refused", "tc_tcp_eof", "tc_tcp_garbage") else b
        self.trace.append(("tcp", srv.idx, round(VT.now - self.t0, 6), b))
        net = self
        if b == "tc_tcp_refused":
            return netsim.TcpScript(connect=("refused", 0.01))
        script = _LazyTcp(b, srv.idx)
        return script


class _Sent(list):
    def __init__(self, hook):
        super().__init__()
        self.hook = hook

    def append(self, item):
        super().append(item)
        self.hook(item[1])


class _LazyTcp(netsim.TcpScript):
    """Reply computed from the request bytes once the peer has received them."""

    def __init__(self, behaviour, idx):
        super().__init__(connect=("ok", 0.0), rx=[], rx_after_request=True)
        self.behaviour = behaviour
        self.idx = idx
        self._rx = None

    @property
    def rx(self):
        if self._rx is None:
            data = bytes(self.received)
            if len(data) < 2:
                return []
            ln = int.from_bytes(data[:2], "big")
            if len(data) < 2 + ln:
                return []
            qwire = data[2 : 2 + ln]
            b = self.behaviour
            if b == "tc_tcp_eof":
                self._rx = [(0.01, b"\x00"), (0.02, "EOF")]
            elif b == "tc_tcp_garbage":
                self._rx = [(0.01, b"\x00\x05hello")]
            elif b == "drop":
                self._rx = []
            else:
                rcode = {"nxdomain": 3, "servfail": 2}.get(b, 0)
                w = _b_reply(qwire, self.idx, rcode=rcode)
                self._rx = [(0.01, len(w).to_bytes(2, "big") + w[:5]), (0.02, w[5:])]
        return self._rx

    @rx.setter
    def rx(self, v):
        pass


def _b_port(cfg, idx):
    mode = cfg.get("ports", "default")
    if mode == "resolver_port":
        return 5353
    if mode in ("per_server", "objects"):
        return 53 if idx == 0 else 5300 + idx
    return 53


def _run_b_world(case, is_async):
    dns = _d
    VT.reset(80000.0)
    _IDS.reset(case["seed"])
    trace = []
    bnet = _BNet(case, trace)
    netsim.NET = bnet
    cfg = case["cfg"]
    r = dns.asyncresolver.Resolver(configure=False) if is_async else dns.resolver.Resolver(configure=False)
    r.nameservers = [f"10.0.0.{i + 1}" for i in range(cfg["nserv"])]
    pmode = cfg.get("ports", "default")
    if pmode == "resolver_port":
        r.port = 5353
    elif pmode == "per_server":
        r.nameserver_ports = {f"10.0.0.{i + 1}": _b_port(cfg, i) for i in range(cfg["nserv"]) if i > 0}
    elif pmode == "objects":
        import dns.nameserver

        r.nameservers = [dns.nameserver.Do53Nameserver(f"10.0.0.{i + 1}", _b_port(cfg, i)) for i in range(cfg["nserv"])]
    r.timeout = cfg["timeout"]
    r.lifetime = cfg["lifetime"]
    r.retry_servfail = cfg["retry_servfail"]
    r.rotate = False
    try:
        if is_async:
            backend = dns.asyncbackend.get_backend("trio" if is_async == "trio" else "asyncio")

            async def go():
                return await r.resolve(case["qname"], case["rdtype"], tcp=cfg["tcp"], backend=backend)

            ans, exc = (netsim.run_trio if is_async == "trio" else netsim.run_async)(go, bnet)
            if exc is not None:
                raise exc
        else:
            ans = r.resolve(case["qname"], case["rdtype"], tcp=cfg["tcp"])
        result = ("answer", ans.rrset.to_text(), ans.nameserver, ans.port)
    except netsim.SimDeadlock:
        result = ("hang",)
    except dns.exception.DNSException as e:
        result = ("exc", type(e).__name__)
    except Exception as e:  # noqa: BLE001
        result = ("exc!", type(e).__name__, str(e)[:100])
    return {"trace": trace, "result": result, "end": round(VT.elapsed(), 6), "bad_ports": bnet.bad_ports}


def _run_b(case, res, log):
    cfg = case["cfg"]
    outs = {}
    for name, is_async in WORLDS:
        if case.get("world") not in (None, name):
            continue
        o = _run_b_world(case, is_async)
        outs[name] = o
        if name == "trio":
            res.probes.inc("trio_backend_resolution")
        tag = f"[{name}] tier B"
        if o["result"] == ("hang",):
            raise Violation("C16:no-termination", f"{tag}: resolution never terminates; trace {o['trace']}")
        if o["result"][0] == "exc!":
            raise Violation("C16:unexpected-exception", f"{tag}: {o['result']}; trace {o['trace']}")
        if o["end"] > cfg["lifetime"] + 2.0 + 1e-6:
            raise Violation("C16:no-termination", f"{tag}: took {o['end']}s with lifetime {cfg['lifetime']}")
        if o["bad_ports"]:
            how, bi, bp = o["bad_ports"][0]
            raise Violation("C16:wrong-port", f"{tag}: a {how} query for ns{bi} went to port {bp}, the server is configured on port {_b_port(cfg, bi)} ({cfg.get('ports')})")
        if cfg.get("ports", "default") != "default":
            res.probes.inc("tierB_non_default_ports")
        # direct invariants on the network trace
        tr = o["trace"]
        removed = set()
        for j, ev in enumerate(tr):
            kind, idx, t, b = ev
            if kind == "udp" and b.startswith("tc_") and not cfg["tcp"]:
                if j + 1 >= len(tr) or tr[j + 1][0] != "tcp" or tr[j + 1][1] != idx:
                    if not (o["result"] == ("exc", "LifetimeTimeout") and j + 1 >= len(tr)):
                        raise Violation("C16:tc-not-retried-over-tcp", f"{tag}: truncated UDP reply from ns{idx} not followed by a TCP query to it; trace {tr}")
                res_probe = "tc_then_tcp_retry"
            if idx in removed:
                raise Violation("C16:broken-server-asked-again", f"{tag}: ns{idx} was asked again after it proved broken; trace {tr}")
            if kind == "tcp" and b in ("tc_tcp_refused", "tc_tcp_eof", "tc_tcp_garbage"):
                removed.add(idx)
            if kind == "udp" and b in ("icmp",):
                removed.add(idx)
            if b == "servfail" and not cfg["retry_servfail"]:
                removed.add(idx)
        if o["result"][0] == "answer":
            # the answer must come from a server whose behaviour yields a genuine answer
            ns = o["result"][2]
            idx = int(ns.split(".")[-1]) - 1
            if o["result"][3] != _b_port(cfg, idx):
                raise Violation("C16:wrong-port", f"{tag}: the answer reports port {o['result'][3]} for {ns}, configured {_b_port(cfg, idx)}")
            if o["result"][1].split()[-1] != f"10.8.{idx}.1":
                raise Violation("C16:wrong-answer", f"{tag}: answer {o['result'][1]} is not the genuine reply of {ns} (spoofed or mismatched datagram accepted); trace {tr}")
        res.sim_seconds += o["end"]
        for ev in tr:
            res.faults.inc("net_" + ev[3])
    names = [n for n, _ in WORLDS if n in outs]
    for other in names[1:]:
        a, b = outs[names[0]], outs[other]
        if a["trace"] != b["trace"] or a["result"] != b["result"] or abs(a["end"] - b["end"]) > 1e-5:
            raise Violation(
                "C16:sync-async-differ",
                f"tier B: {names[0]} {a['result']} end {a['end']} trace {a['trace']} | {other} {b['result']} end {b['end']} trace {b['trace']}",
            )
    any_out = next(iter(outs.values()))
    log.add("B", any_out["trace"], any_out["result"], any_out["end"])
    res.probes.inc("tierB_runs")
    res.nontrivial = any(ev[3] != "answer" for ev in any_out["trace"])
    res.steps = len(any_out["trace"])
    res.state("B", tuple(ev[3] for ev in any_out["trace"]), any_out["result"][0])


def run_case(case, keep_log=False):
    res = RunResult()
    log = EventLog(keep=keep_log)
    saved_net = netsim.NET
    try:
        if case["tier"] == "A":
            _run_a(case, res, log)
        else:
            _run_b(case, res, log)
    except Violation as v:
        res.violation = (v.cls, v.detail)
    finally:
        netsim.NET = saved_net
    res.digest = log.digest()
    if keep_log:
        res.extra["log"] = log.lines
    return res


def shrink(case):
    if case.get("world") is None:
        for w, _ in WORLDS:
            c = copy.deepcopy(case)
            c["world"] = w
            yield c
    if case["tier"] == "B":
        for i, b in enumerate(case["behaviours"]):
            for j in range(len(b)):
                if len(b) > 1:
                    c = copy.deepcopy(case)
                    del c["behaviours"][i][j]
                    yield c
        return
    if len(case["resolutions"]) > 1:
        for i in range(len(case["resolutions"])):
            c = copy.deepcopy(case)
            del c["resolutions"][i]
            yield c
    for i, s in enumerate(case["scripts"]):
        for j in range(len(s)):
            c = copy.deepcopy(case)
            del c["scripts"][i][j]
            yield c
        for j, o in enumerate(s):
            if "jump" in o:
                c = copy.deepcopy(case)
                del c["scripts"][i][j]["jump"]
                yield c
            if o.get("dt"):
                c = copy.deepcopy(case)
                c["scripts"][i][j]["dt"] = 0.0
                yield c
    cfg = case["cfg"]
    for key, simple in (("search", []), ("cache", None), ("retry_servfail", False), ("ndots", None), ("domain", ".")):
        if cfg[key] != simple:
            c = copy.deepcopy(case)
            c["cfg"][key] = simple
            yield c
    for i, r in enumerate(case["resolutions"]):
        for key, simple in (("gap", 0.0), ("tcp", False), ("search", None), ("lifetime", None)):
            if r[key] != simple:
                c = copy.deepcopy(case)
                c["resolutions"][i][key] = simple
                yield c
        if r.get("rdclass", "IN") != "IN":
            c = copy.deepcopy(case)
            del c["resolutions"][i]["rdclass"]
            yield c


def known_match(finding, case, violation):
    return False
