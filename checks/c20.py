"""C20 -- B-tree zone flags, delegation index and bounds are a function of zone content.

Engine: zonesim on dns.btreezone.Zone.  Transaction histories (commit / rollback /
exception, replacement transactions, shuffled initial load, readers pinned across
later commits) biased toward NS and non-NS records at, above and below delegation
points including nested cuts.  After every commit the derived state of the newest
version and of every pinned version is recomputed from content alone, by
definition, and compared; bounds() is compared for a set of query names.
"""

import copy

from simkit.core import EventLog, RunResult, Violation, sub_rng
from simkit.refzone import ModelError
from checks import zonesim as Z

PROP = "C20"
ENGINE = "zonesim"
HANG_WATCHDOG = True  # (sequential engine: a run that does not come back is a violation, see simkit.runner.run_guarded)
LEVEL = "exploration"
TIERS = {
    "quick": {"runs": 12000, "budget_s": 75},
    "thorough": {"runs": 600000, "budget_s": 1500},
}
DET_EVERY = 40
RULE = (
    "one run = one seeded history of 1-8 transactions (NS / A / TXT / CNAME adds, replaces and deletes at, above and "
    "below delegation points, nested cuts in both orders, whole-node deletes, replacement transactions, rollbacks and "
    "exceptions, readers held open across later commits) on a dns.btreezone.Zone (relativized or absolute, initial load "
    "in seeded record order); after every commit flags, delegation index, iteration order and bounds() for ~30 query "
    "names are compared with values recomputed from content; non-trivial = at least one delegation point existed and "
    "at least one commit changed the delegation set or touched a name at/below a cut; distinct = distinct event-log digests"
)
STATE_MEASURE = "distinct (delegation set, glue set, name set) shapes reached after a commit"
COMPONENTS_REAL = [
    "dns.btreezone.Zone / WritableVersion (_maybe_cow_with_name, put_rdataset, delete_rdataset, delete_node, update_glue_flag) / ImmutableVersion.bounds / Delegations / Node",
    "dns.btree (BTreeDict, BTreeSet, Cursor)",
    "dns.versioned.Zone, dns.zone.Transaction, dns.transaction.Transaction",
]
COMPONENTS_STUB = ["clients issuing the history"]
EXPECTED_PROBES = [
    "non_ns_change_at_cut",
    "nested_cut_inner_first",
    "nested_cut_outer_first",
    "cut_deleted_with_glue_beneath",
    "query_below_cut",
    "closest_encloser_is_ent",
    "query_beyond_last_name",
    "pinned_reader_rechecked_after_2_commits",
    "outer_cut_removed_inner_promoted",
    "initial_load_origin_from_text",
]

NAMES = ["@", "a", "sub", "ns.sub", "deep.ns.sub", "x.sub", "sub2.sub", "a.sub2.sub", "zz", "leaf.ent", "*.w", "sub3", "g.sub3", "b.a", "_dmarc", "_sip.sub", "^z", "Y"]  # (octets between "Z" and "a" sort between upper- and lower-case letters only if case is folded the right way)
TYPES = ["NS", "NS", "NS", "A", "TXT", "CNAME", "AAAA", "RRSIG:CNAME", "RRSIG:NS"]  # signatures: covering CNAME displaces NS like a CNAME; covering NS alone makes no cut
TYPES_CH = ["NS", "NS", "NS", "TXT", "CNAME", "MX", "RRSIG:CNAME", "RRSIG:NS"]  # (A/AAAA have other formats outside class IN)
QUERY_EXTRA = ["0", "aa", "sub1", "q.sub", "q.ns.sub", "z.deep.ns.sub", "ent", "q.ent", "zzz", "q.zz", "w", "q.w", "sub2", "t.sub2.sub", "sub4", "q.a", "z.b.a", "\\000.sub", "sub\\000"]


def setup():
    Z.setup_dns()


def gen_case(seed, tier):
    rng = sub_rng(seed, "workload")
    big = tier == "thorough"
    names = rng.sample(NAMES, rng.choice([4, 6, 9, len(NAMES)]))
    if "@" not in names:
        names.append("@")
    rdclass = "CH" if rng.random() < 0.1 else "IN"
    TYPES = TYPES_CH if rdclass == "CH" else globals()["TYPES"]
    nested_ok = rng.random() < 0.6
    if not nested_ok:
        names = [n for n in names if n not in ("sub2.sub", "a.sub2.sub")]
    wide = rng.random() < 0.25
    if wide:
        # many sibling cuts: the delegation index (and the node map) grow beyond one B-tree node, so
        # versions share inner nodes and a writer's insertions run through nodes an older version owns
        names = names + [f"d{i:02d}" for i in range(rng.choice([10, 16, 24]))]
        TYPES = ["NS", "NS", "NS"] + list(TYPES)
    base = Z.base_load(rng, rng.choice([20, 40]) if wide else rng.choice([2, 5, 10]), names, TYPES)
    if nested_ok and rdclass == "IN" and rng.random() < 0.25:
        # template: a cut with an occluded NS owner and names beneath that owner, and a second inner cut
        for n, t, rd in (("sub", "NS", "ns1"), ("ns.sub", "NS", "ns2.example."), ("deep.ns.sub", "A", "10.0.0.3"), ("sub2.sub", "NS", "ns1"), ("a.sub2.sub", "A", "10.0.0.4")):
            if n not in names:
                names.append(n)
            base.append({"o": "add", "n": n, "nf": "rel", "f": "rdataset", "t": t, "ttl": 300, "rd": [rd]})
    head, tail = base[:2], base[2:]
    rng.shuffle(tail)
    if rng.random() < 0.3:
        # the SOA/NS of the apex may also come late in the load
        allops = head + tail
        rng.shuffle(allops)
        base = allops
    else:
        base = head + tail
    inner = [n for n in names if any(m not in ("@", n) and n.endswith("." + m) for m in names)]
    steps = []
    for _ in range(rng.choice([1, 2, 4, 8] if big else [1, 2, 4, 6])):
        r = rng.random()
        if r < 0.12:
            steps.append({"s": "open"})
        elif r < 0.2:
            steps.append({"s": "close", "h": rng.randrange(4)})
        else:
            ops = []
            for _ in range(rng.choice([1, 1, 2, 3, 5])):
                op = Z.gen_op(rng, names, TYPES, allow_bad=False)
                if op["o"] == "serial":
                    op = {"o": "serial", "v": 1, "rel": True, "n": "@", "nf": "abs"}
                if op["o"] == "delete" and op["n"] == "@" and op["f"] == "name":
                    op["n"] = rng.choice(names)
                ops.append(op)
            if inner and rng.random() < 0.2:
                # the whole node of a name that lies beneath another name of the zone goes away (an occluded
                # NS owner, glue, a name below an inner cut): what is exposed or hidden is decided by content
                ops.insert(rng.randrange(len(ops) + 1), {"o": "delete", "n": rng.choice(inner), "nf": rng.choice(["rel", "abs"]), "f": "name", "exact": False})
            steps.append(
                {
                    "s": "write",
                    "ops": ops,
                    "end": rng.choice(["commit", "commit", "commit", "commit", "rollback", "exc"]),
                    "repl": rng.random() < 0.08,
                }
            )
    cfg = {"relativize": rng.random() < 0.5, "load_replacement": rng.random() < 0.7, "nested": nested_ok, "load_text_no_origin": rng.random() < 0.15, "rdclass": rdclass}
    return {"prop": PROP, "seed": seed, "cfg": cfg, "base": base, "steps": steps, "btree_t": rng.choice([3, 3, 4, 127])}


# ---------------------------------------------------------------------------
# the definition, recomputed from content


def ck(name):
    """Canonical ordering key of an absolute name, written from RFC 4034 6.1 (labels right to left,
    each compared as lower-cased octet strings, a missing label first) -- not the library's `<`."""
    return tuple(bytes(label).lower() for label in reversed(name.labels))


def derive(origin, content):
    """content: {absname: set of (rdtype, covers)}. Returns (D, glue, order)."""
    names = list(content)
    ns_owners = [n for n in names if n != origin and (2, 0) in content[n]]
    D = set(n for n in ns_owners if not any(n != m and n.is_subdomain(m) for m in ns_owners))
    glue = set(n for n in names if any(n != d and n.is_subdomain(d) for d in D))
    order = sorted(names, key=ck)
    return D, glue, order


def expected_bounds(origin, content, D, glue, q):
    cut = None
    for d in D:
        if q.is_subdomain(d):
            cut = d
            break
    visible = sorted((n for n in content if n not in glue), key=ck)
    if cut is not None:
        left = cut
    else:
        cands = [n for n in visible if ck(n) <= ck(q)]
        left = cands[-1]
    right = None
    for n in visible:
        if ck(n) > ck(left) and (cut is None or not n.is_subdomain(cut)) and (cut is not None or ck(n) > ck(q)):
            right = n
            break
    enc = None
    for k in range(len(q), 0, -1):
        s = q.split(k)[1] if k < len(q) else q
        if any(n.is_subdomain(s) for n in visible):
            enc = s
            break
    return left, right, enc, left == q, cut is not None


class _World:
    def __init__(self, case, res, log):
        self.case = case
        self.res = res
        self.log = log
        cfg = case["cfg"]
        self.readers = []  # (txn, model snapshot dict, commits_at_open)
        self.commits = 0
        self.nontrivial = False
        text_ok = all(op["o"] == "add" and op["n"] not in ("OUT", "LONG", "OVER") and op.get("cls", "IN") == "IN" and op["t"] not in ("CNAME", "RRSIG:CNAME") for op in case["base"])  # (the master-file reader refuses CNAME-and-other-data instead of displacing)
        if cfg.get("load_text_no_origin") and text_ok and cfg.get("rdclass", "IN") == "IN":
            # the origin is not given to the constructor: it comes from $ORIGIN in the text
            self.b, self.model = Z.load_bench_from_text("btree", cfg["relativize"], case["base"])
            self.zone = self.b.zone
            res.probes.inc("initial_load_origin_from_text")
        else:
            self.b = Z.Bench("btree", cfg["relativize"], rdclass=cfg.get("rdclass", "IN"))
            if cfg.get("rdclass", "IN") != "IN":
                res.probes.inc("zone_of_another_class")
            self.zone = self.b.zone
            self.model = Z.load_bench(self.b, case["base"], replacement=cfg.get("load_replacement", True))
        self.note_shape(None, self.model)
        self.check_version(self.zone._versions[-1], self.model, "after initial load")

    def content_types(self, m):
        return {n: set(rds.keys()) for n, rds in m.content.items()}

    def note_shape(self, before, after):
        import dns.name

        o = self.b.origin
        ca = self.content_types(after)
        Da, ga, _ = derive(o, ca)
        if before is not None:
            cb = self.content_types(before)
            Db, gb, _ = derive(o, cb)
            if Da != Db:
                self.nontrivial = True
            for d in Db & Da:
                if cb[d] != ca[d]:
                    self.res.probes.inc("non_ns_change_at_cut")
                    self.nontrivial = True
            for d in Db - Da:
                if any(n != d and n.is_subdomain(d) for n in ca):
                    self.res.probes.inc("cut_deleted_with_glue_beneath")
                inner = [n for n in ca if n != d and n.is_subdomain(d) and (2, 0) in ca[n] and n in Da]
                if inner:
                    self.res.probes.inc("outer_cut_removed_inner_promoted")
            ns_b = set(n for n in cb if n != o and (2, 0) in cb[n])
            ns_a = set(n for n in ca if n != o and (2, 0) in ca[n])
            for n in ns_a - ns_b:
                if any(n != m and n.is_subdomain(m) for m in ns_b):
                    self.res.probes.inc("nested_cut_outer_first")
                if any(n != m and m.is_subdomain(n) for m in ns_b):
                    self.res.probes.inc("nested_cut_inner_first")
        self.res.state(tuple(sorted(str(x) for x in Da)), tuple(sorted(str(x) for x in ga)), len(ca))

    def check_version(self, version, m, what):
        import dns.btreezone
        import dns.name

        b = self.b
        o = b.origin
        NF = dns.btreezone.NodeFlags
        content = self.content_types(m)
        got_content = b.snap_nodes(version.nodes)
        Z.compare("C20:content", b, got_content, m.snapshot(), what)
        D, glue, order = derive(o, content)
        got_order = [b.to_abs(n) for n in version.nodes.keys()]
        if got_order != order:
            raise Violation("C20:iteration-order", f"{what}: names iterate as {[str(n) for n in got_order]}, canonical order is {[str(n) for n in order]}")
        for name, node in version.nodes.items():
            an = b.to_abs(name)
            want = NF(0)
            if an == o:
                want |= NF.ORIGIN
            if an in D:
                want |= NF.DELEGATION
            if an in glue:
                want |= NF.GLUE
            if NF(node.flags) != want:
                raise Violation(
                    "C20:flags",
                    f"{what}: node {an} has flags {NF(node.flags)!r}, content defines {want!r} (delegation points {sorted(str(d) for d in D)})",
                )
        got_D = set(b.to_abs(n) for n in version.delegations)
        if got_D != D:
            raise Violation(
                "C20:delegation-index",
                f"{what}: delegation index {sorted(str(d) for d in got_D)}, content defines {sorted(str(d) for d in D)}",
            )
        if o not in content:
            return
        # bounds for every name in the zone, neighbours and extra query names
        queries = set(content)
        for q in QUERY_EXTRA:
            queries.add(dns.name.from_text(q, o))
        for n in list(content)[:6]:
            try:
                queries.add(dns.name.from_text("q", n))
                queries.add(n.successor(o))
                queries.add(n.predecessor(o))
            except Exception:  # noqa: BLE001 - name too long etc.
                pass
        for q in sorted(queries):
            try:
                want = expected_bounds(o, content, D, glue, q)
            except IndexError:
                continue
            arg = q if not b.relativize or self._flip(q) else q.relativize(o)
            try:
                bd = version.bounds(arg)
            except Exception as e:  # noqa: BLE001
                raise Violation("C20:bounds", f"{what}: bounds({q}) raised {type(e).__name__}: {e}")
            got = (
                b.to_abs(bd.left),
                None if bd.right is None else b.to_abs(bd.right),
                b.to_abs(bd.closest_encloser),
                bd.is_equal,
                bd.is_delegation,
            )
            if got != want:
                fields = ["left", "right", "closest_encloser", "is_equal", "is_delegation"]
                bad = [f for f, g, w in zip(fields, got, want) if g != w]
                raise Violation(
                    "C20:bounds-" + bad[0],
                    f"{what}: bounds({q}) = {dict(zip(fields, [str(x) for x in got]))}, expected {dict(zip(fields, [str(x) for x in want]))}; names {[str(n) for n in order]}, cuts {sorted(str(d) for d in D)}",
                )
            if want[4]:
                self.res.probes.inc("query_below_cut")
            if want[2] not in content and want[2] != q:
                self.res.probes.inc("closest_encloser_is_ent")
            if want[1] is None:
                self.res.probes.inc("query_beyond_last_name")

    def _flip(self, q):
        # pass about half of the query names in absolute form to a relativized zone
        return (sum(str(q).encode()) & 1) == 0

    def check_all(self, what):
        self.check_version(self.zone._versions[-1], self.model, what + " (newest)")
        for txn, m, at in self.readers:
            self.check_version(txn.version, m, what + f" (version pinned by a reader opened after commit {at})")
            if self.commits - at >= 2:
                self.res.probes.inc("pinned_reader_rechecked_after_2_commits")

    def step_write(self, st):
        b = self.b
        work = self.model.copy()
        if st.get("repl"):
            work.content = {}
        committed = False
        real_changed = False
        try:
            with self.zone.writer(bool(st.get("repl"))) as txn:
                for op in st["ops"]:
                    want = None
                    saved = work.copy()
                    try:
                        Z.apply_model(b, work, op)
                    except ModelError as e:
                        want = e.name
                        work = saved
                    got = None
                    try:
                        Z.apply_real(b, txn, op)
                    except Exception as e:  # noqa: BLE001
                        got = type(e).__name__
                    if got != want:
                        raise Violation("C20:op-outcome", f"{Z.describe(op)}: real {got}, model {want}")
                    # the writable version must keep its derived state in step too
                    self.check_writable(txn.version, work, f"inside txn after {Z.describe(op)}")
                if st["end"] == "rollback":
                    self.res.faults.inc("writer_rollback")
                    txn.rollback()
                elif st["end"] == "exc":
                    self.res.faults.inc("writer_exception")
                    raise Z.Planned("abort")
                else:
                    committed = True
                    real_changed = txn.changed()
        except Z.Planned:
            committed = False
        if committed and real_changed:
            if self.b.origin not in work.content and not st.get("repl"):
                pass
            self.note_shape(self.model, work)
            self.model = work
            self.commits += 1

    def check_writable(self, version, m, what):
        """Flags and index of the open writable version (reads inside the txn)."""
        import dns.btreezone

        b = self.b
        o = b.origin
        NF = dns.btreezone.NodeFlags
        content = self.content_types(m)
        D, glue, _ = derive(o, content)
        got_D = set(b.to_abs(n) for n in version.delegations)
        if got_D != D:
            raise Violation("C20:delegation-index", f"{what}: delegation index {sorted(str(d) for d in got_D)}, content defines {sorted(str(d) for d in D)}")
        for name, node in version.nodes.items():
            an = b.to_abs(name)
            want = NF(0)
            if an == o:
                want |= NF.ORIGIN
            if an in D:
                want |= NF.DELEGATION
            if an in glue:
                want |= NF.GLUE
            if NF(node.flags) != want:
                raise Violation("C20:flags", f"{what}: node {an} has flags {NF(node.flags)!r}, content defines {want!r} (delegation points {sorted(str(d) for d in D)})")


def run_case(case, keep_log=False):
    res = RunResult()
    log = EventLog(keep=keep_log)
    if Z.set_btree_branching(case.get("btree_t")) < 127:
        res.faults.inc("btree_branching_factor_lowered")
    try:
        w = _World(case, res, log)
        for i, st in enumerate(case["steps"]):
            if st["s"] == "open":
                w.readers.append((w.zone.reader(), w.model.copy(), w.commits))
            elif st["s"] == "close":
                if w.readers:
                    txn, _, _ = w.readers.pop(st["h"] % len(w.readers))
                    txn.rollback()
            else:
                w.step_write(st)
            w.check_all(f"after step {i} ({st['s']}{'/' + st['end'] if st['s'] == 'write' else ''})")
            log.add(i, st["s"], Z.stable_hash(w.model.snapshot()), len(w.readers))
        res.nontrivial = w.nontrivial
    except Violation as v:
        res.violation = (v.cls if ":" in v.cls else "C20:" + v.cls, v.detail)
    res.digest = log.digest()
    res.steps = len(case["steps"])
    return res


def shrink(case):
    st = case["steps"]
    for i in range(len(st)):
        c = copy.deepcopy(case)
        del c["steps"][i]
        yield c
    for i, s in enumerate(st):
        if s["s"] == "write":
            for j in range(len(s["ops"])):
                c = copy.deepcopy(case)
                del c["steps"][i]["ops"][j]
                yield c
    for j in range(len(case["base"]) - 1, -1, -1):
        if case["base"][j]["t"] == "SOA":
            continue
        c = copy.deepcopy(case)
        del c["base"][j]
        yield c
    for i, s in enumerate(st):
        if s["s"] == "write":
            if s["end"] != "commit" or s.get("repl"):
                c = copy.deepcopy(case)
                c["steps"][i]["end"] = "commit"
                c["steps"][i]["repl"] = False
                yield c
            for j, op in enumerate(s["ops"]):
                for key, simple in (("nf", "rel"), ("f", "rdataset"), ("ttl", 300)):
                    if op.get(key) not in (None, simple) and not (key == "f" and op["o"] == "delete"):
                        c = copy.deepcopy(case)
                        c["steps"][i]["ops"][j][key] = simple
                        yield c
                if op.get("rd") and len(op["rd"]) > 1:
                    c = copy.deepcopy(case)
                    c["steps"][i]["ops"][j]["rd"] = op["rd"][:1]
                    yield c
    for j, op in enumerate(case["base"]):
        for key, simple in (("nf", "rel"), ("f", "rdataset"), ("ttl", 300)):
            if op.get(key) not in (None, simple):
                c = copy.deepcopy(case)
                c["base"][j][key] = simple
                yield c
    cfg = case["cfg"]
    for key, simple in (("relativize", True), ("load_replacement", True), ("load_text_no_origin", False)):
        if cfg[key] != simple:
            c = copy.deepcopy(case)
            c["cfg"][key] = simple
            yield c


def _has_nested_ns(case):
    """The minimised history stores an NS rdataset at a proper subdomain of another non-apex NS owner."""
    owners = set()
    for op in list(case["base"]) + [o for s in case["steps"] if s["s"] == "write" for o in s["ops"]]:
        if op["o"] in ("add", "replace") and op.get("t") == "NS" and op["n"] != "@":
            owners.add(op["n"])
    for a in owners:
        for b2 in owners:
            if a != b2 and a.endswith("." + b2):
                return True
    return False


def known_match(finding, case, violation):
    if finding.get("predicate") == "nested-ns-cut":
        return violation[0] in ("C20:flags", "C20:delegation-index") and _has_nested_ns(case)
    return False
