"""C12 -- versioned-zone writers are serialized, FIFO and deadlock-free in every
schedule; readers never wait for a write transaction and never see a partial one.

Engine: threadsim.  Real code: dns.versioned.Zone (and dns.btreezone.Zone on
top of it), dns.zone.Transaction / WritableVersion / ImmutableVersion.
Shimmed: the name `threading` inside dns.versioned.  Stub: the client threads.
"""

from simkit.core import EventLog, RunResult, Violation, sub_rng
from simkit import threadsim
from simkit.threadsim import Deadlock, Scheduler

PROP = "C12"
ENGINE = "threadsim"
TIERS = {
    "quick": {"runs": 24000, "budget_s": 75},
    "thorough": {"runs": 1500000, "budget_s": 1500},
}
RULE = (
    "one run = one seeded thread schedule of 2-6 client threads (writers that commit, roll back or "
    "raise; snapshot readers; direct readers; late newcomers) over a real dns.versioned.Zone or "
    "dns.btreezone.Zone, pre-empted at every shim Lock/Event operation and at source-line granularity "
    "inside dns/versioned.py and the version constructors; a run is non-trivial when at least one context "
    "switch happened inside a zone API call; distinct = distinct event-log digests (sequence of context "
    "switches, blocks, admissions, commits) among non-trivial runs"
)
STATE_MEASURE = (
    "distinct tuples (owner of _write_txn, waiter queue length, exclusive-right token held?, "
    "per-thread phase vector) observed at scheduler steps"
)
COMPONENTS_REAL = [
    "dns.versioned.Zone.writer/reader/_maybe_wakeup_one_waiter_unlocked/_end_read/_end_write/"
    "_commit_version/_prune_versions_unlocked",
    "dns.btreezone.Zone + WritableVersion/ImmutableVersion",
    "dns.zone.Transaction/_setup_version/_end_transaction, WritableVersion, ImmutableVersion",
    "dns.transaction.Transaction (get/replace/update_serial/commit/rollback/context manager)",
]
COMPONENTS_STUB = [
    "threading.Lock/Event inside dns.versioned (scheduler-owned shim)",
    "client threads (seeded workload)",
]

_dns = None
POISON = 100000
_ALLOC = {"n": None, "commit_n": None, "busy": False, "fired": 0, "fired_commit": 0, "failed_inv": set()}


def setup():
    global _dns
    import dns.versioned
    import dns.btreezone
    import dns.zone
    import dns.rdataset
    import dns.rdatatype
    import dns.name
    import dns

    _dns = dns
    dns.versioned.threading = threadsim.SHIM
    funcs = threadsim.functions_of(dns.versioned.Zone)
    funcs += threadsim.functions_of(
        dns.zone.Transaction, {"_setup_version", "_end_transaction", "__init__"}
    )
    funcs += threadsim.functions_of(dns.zone.WritableVersion, {"__init__"})
    funcs += threadsim.functions_of(dns.zone.ImmutableVersion, {"__init__"})
    funcs += threadsim.functions_of(dns.btreezone.WritableVersion, {"__init__"})
    funcs += threadsim.functions_of(dns.btreezone.ImmutableVersion, {"__init__", "bounds"})
    funcs += threadsim.functions_of(dns.btreezone.Delegations)
    threadsim.enable_line_preemption(funcs)
    # fault point: a failing allocation while the admitted writer builds its private version
    for cls in (dns.zone.WritableVersion, dns.btreezone.WritableVersion, dns.zone.ImmutableVersion, dns.btreezone.ImmutableVersion):
        if not getattr(cls, "_verif_alloc_wrapped", False):
            orig = cls.__init__

            def init(self, *a, _orig=orig, _is_commit=cls.__name__.startswith("Immutable"), **kw):
                zone_of = a[0].zone if _is_commit else a[0]
                if zone_of is _ALLOC.get("skip_zone"):
                    return _orig(self, *a, **kw)
                if _is_commit:
                    if _ALLOC["commit_n"] is not None and threadsim._ACTIVE is not None and threadsim._ACTIVE.current is not None and not _ALLOC["busy"]:
                        _ALLOC["busy"] = True
                        try:
                            _ALLOC["commit_n"] -= 1
                            if _ALLOC["commit_n"] == 0:
                                _ALLOC["commit_n"] = None
                                _ALLOC["fired_commit"] += 1
                                raise _ALLOC.get("exc", MemoryError)("injected failure while building the immutable version at commit")
                        finally:
                            _ALLOC["busy"] = False
                    return _orig(self, *a, **kw)
                if _ALLOC["n"] is not None and threadsim._ACTIVE is not None and threadsim._ACTIVE.current is not None and not _ALLOC["busy"]:
                    _ALLOC["busy"] = True
                    try:
                        _ALLOC["n"] -= 1
                        if _ALLOC["n"] == 0:
                            _ALLOC["n"] = None
                            _ALLOC["fired"] += 1
                            # this writer did get the write right; it now gives it up
                            _ALLOC["failed_inv"].add(threadsim._ACTIVE.current.data.get("inv"))
                            raise _ALLOC.get("exc", MemoryError)("injected failure in version setup")
                    finally:
                        _ALLOC["busy"] = False
                return _orig(self, *a, **kw)

            cls.__init__ = init
            cls._verif_alloc_wrapped = True
    # seam audit: a fresh zone must be using the shim lock
    z = dns.versioned.Zone("example.")
    if not isinstance(z._version_lock, threadsim.ShimLock):
        from simkit.core import HarnessError

        raise HarnessError("seam dns.versioned.threading")


# ---------------------------------------------------------------------------
# case generation


def gen_case(seed, tier):
    rng = sub_rng(seed, "cfg")
    big = tier == "thorough"
    nthreads = rng.choice([2, 3, 3, 4, 4, 5, 6] if big else [2, 3, 3, 4, 4, 5])
    kinds = ["random", "random", "pct", "starve", "newcomer", "newcomer"]
    strat = {
        "kind": rng.choice(kinds),
        "p_sync": rng.choice([0.2, 0.5, 0.9]),
        "p_line": rng.choice([0.0, 0.02, 0.1, 0.3, 1.0]),
        "d": rng.choice([1, 2, 3]),
        "est_steps": rng.choice([100, 400, 1500]),
        "victim": rng.randrange(nthreads),
    }
    cfg = {
        "zone": rng.choice(["versioned", "btree"]),
        "relativize": rng.random() < 0.5,
        "filler": rng.choice([0, 3, 10, 40]),
        "slots": rng.choice([1, 2, 3]),
        "max_versions": rng.choice([None, 1, 2, 5, "keepall"]),
        "strategy": strat,
    }
    wl = sub_rng(seed, "workload")
    threads = []
    for i in range(nthreads):
        role = wl.choice(["w", "w", "w", "m", "r"])
        nops = wl.choice([1, 1, 2, 3])
        ops = []
        for _ in range(nops):
            if role == "w":
                k = "w" if wl.random() < 0.92 else "w2"
            elif role == "r":
                k = wl.choice(["r", "r", "r", "d", "d", "a"])
            else:
                k = wl.choice(["w", "w", "r", "r", "d", "a", "w2"])
            if k == "w":
                ops.append(
                    {
                        "k": "w",
                        "end": wl.choice(
                            ["commit", "commit", "commit", "commit", "rollback", "exc", "with", "with", "baseexc"]
                        ),
                        "serial": wl.random() < 0.3,
                        "noop": wl.random() < 0.08,
                        "nested2": wl.random() < 0.1,
                        "repl": wl.random() < 0.08,
                    }
                )
            elif k == "r":
                ops.append({"k": "r", "how": wl.choice(["with", "explicit"]), "by": "id" if wl.random() < 0.25 else "latest", "hold": wl.choice([0, 0, 0, 2, 6, 15])})
            elif k == "a":
                # another thread reconfigures version retention while transactions run
                ops.append({"k": "a", "limit": wl.choice([None, 1, 1, 2, 3, "default", "max1", "max2", "maxnone"])})
            elif k == "w2":
                ops.append({"k": "w2", "end": wl.choice(["commit", "commit", "rollback"])})
            else:
                ops.append({"k": "d"})
        threads.append({"late": wl.random() < 0.25, "ops": ops})
    # make sure there is at least one writer and not everybody is late
    if not any(o["k"] == "w" for t in threads for o in t["ops"]):
        threads[0]["ops"].insert(
            0, {"k": "w", "end": "commit", "serial": False, "noop": False, "nested2": False}
        )
    if all(t["late"] for t in threads):
        threads[0]["late"] = False
    alloc_fail = wl.choice([1, 2, 3, 4]) if wl.random() < 0.12 else None
    alloc_fail_commit = wl.choice([1, 2, 3]) if wl.random() < 0.10 else None
    return {"prop": PROP, "seed": seed, "cfg": cfg, "threads": threads, "schedule": None, "alloc_fail": alloc_fail, "alloc_fail_commit": alloc_fail_commit, "btree_t": wl.choice([3, 3, 4, 127]), "alloc_exc": wl.choice(["mem", "mem", "base"]), "event_alloc_fail": wl.choice([1, 1, 2, 3]) if wl.random() < 0.1 else None}


# ---------------------------------------------------------------------------
# the simulated system


def _build_zone(cfg, nthreads):
    dns = _dns
    import dns.zone
    import dns.versioned
    import dns.btreezone

    lines = [
        "@ 300 IN SOA ns1 hostmaster 1 7200 900 1209600 300",
        "@ 300 IN NS ns1",
        "ns1 300 IN A 10.0.0.1",
        "sub 300 IN NS host.sub",
        "host.sub 300 IN A 10.0.0.2",
        "zcut 300 IN NS ns1",
        'counter 300 IN TXT "0"',
    ]
    for i in range(cfg["slots"]):
        lines.append(f'slot{i} 300 IN TXT "0"')
    for i in range(nthreads):
        lines.append(f'tag{i} 300 IN TXT "none"')
    for i in range(cfg["filler"]):
        lines.append(f"f{i:03d} 300 IN A 10.1.{i // 250}.{i % 250 + 1}")
    text = "\n".join(lines) + "\n"
    factory = dns.versioned.Zone if cfg["zone"] == "versioned" else dns.btreezone.Zone
    z = dns.zone.from_text(
        text, origin="example.", relativize=cfg["relativize"], zone_factory=factory
    )
    mv = cfg["max_versions"]
    if mv == "keepall":
        z.set_max_versions(None)
    elif mv is not None:
        z.set_max_versions(mv)
    return z


class _Planned(Exception):
    """The exception a workload raises on purpose inside a `with` body."""


class _PlannedBase(BaseException):
    """The same, but not an Exception (KeyboardInterrupt, SystemExit, a cancellation)."""


class _Policy:
    """A pruning policy object of the check's own (so the one in force can be recognised)."""

    def __init__(self, limit):
        self.limit = limit

    def __call__(self, zone, version):
        if self.limit is None:
            return False
        return len(zone._versions) > self.limit


USER_PHASES = ("idle", "open", "reading", "open2")


class _World:
    """All bookkeeping of one run; oracles live here."""

    def __init__(self, case, res, log):
        self.case = case
        self.res = res
        self.log = log
        self.cfg = case["cfg"]
        self.nthreads = len(case["threads"])
        self.zone = _build_zone(self.cfg, self.nthreads)
        self.base_id = self.zone._versions[-1].id
        # a second, unrelated zone used by the same threads: nothing of the write
        # admission state may be shared between zones
        self.zone2 = _build_zone({"zone": self.cfg["zone"], "relativize": self.cfg["relativize"], "filler": 0, "slots": 0, "max_versions": None}, 0)
        self.open2 = []
        self.commits2 = 0
        self.commits_invoked = 0
        self.commits_returned = 0
        self.admissions = []  # (thread idx, invocation no)
        self.open = []  # SimThreads whose write txn is open (user code)
        self.tags = {}  # thread idx -> last committed tag
        self.must_precede = {}  # invocation id -> set of invocation ids
        self.admitted_inv = set()
        self.inv_counter = 0
        self.sched = None
        self.early_left = sum(1 for t in case["threads"] if not t["late"])
        self.in_api_switch = False
        self.serial_expected = 1
        self._prev = None
        self.woken_pending = None
        self.failed_accounted = 0

    # --- helpers ---
    def name(self, s):
        import dns.name

        if self.cfg["relativize"]:
            return dns.name.from_text(s, None)
        return dns.name.from_text(s + ".example.")

    def txt(self, value):
        import dns.rdataset

        rds = dns.rdataset.from_text("IN", "TXT", 300, f'"{value}"')
        cur = self.sched.current if self.sched is not None else None
        if cur is not None:
            cur.data.setdefault("handed_in", []).append(rds)
        return rds

    def scribble(self, t):
        """After its transaction ended the writer goes on using the rdataset objects it passed in."""
        import dns.rdata

        objs = t.data.pop("handed_in", [])
        for rds in objs:
            try:
                rds.add(dns.rdata.from_text("IN", "TXT", f'"{POISON + 7}"'))
                rds.update_ttl(7)
            except Exception:  # noqa: BLE001
                pass
        if objs:
            self.res.faults.inc("client_scribbles_on_passed_in_objects", len(objs))

    def read_int(self, rds):
        if len(rds) != 1 or rds.ttl != 300:
            raise Violation("C12:foreign-data-visible", f"an rdataset holds {len(rds)} records with TTL {rds.ttl}: {[r.to_text() for r in rds]} (every transaction stores exactly one record with TTL 300)")
        return int(rds[0].strings[0])

    # --- oracle: evaluated at every scheduler step ---
    def on_step(self, cur, kind, info):
        z = self.zone
        res = self.res
        if len(self.open) > 1:
            raise Violation(
                "C12:two-writers-open",
                "threads %s all hold an open write transaction"
                % [t.idx for t in self.open],
            )
        if self.open:
            if z._write_txn is not self.open[0].data.get("txn"):
                raise Violation(
                    "C12:write-txn-mismatch",
                    f"T{self.open[0].idx} has an open write transaction but zone._write_txn is something else",
                )
        if len(self.open2) > 1:
            raise Violation("C12:two-writers-open", "threads %s all hold an open write transaction on the second zone" % [t.idx for t in self.open2])
        if self.open2 and self.zone2._write_txn is not self.open2[0].data.get("txn2"):
            raise Violation("C12:write-txn-mismatch", f"T{self.open2[0].idx} has an open write transaction on the second zone but its _write_txn is something else")
        # version retention, at every step: a version pinned by an open reader is retained; and
        # outside the lock the published node map is the newest version's
        for rtxn in z._readers:
            if rtxn.version not in z._versions:
                raise Violation("C12:pinned-version-pruned", f"version {rtxn.version.id} of an open reader is no longer retained (retained: {[v.id for v in z._versions]})")
        if not z._version_lock.held:
            if z.nodes is not z._versions[-1].nodes:
                raise Violation("C12:nodes-versions-disagree", "zone.nodes is not the newest retained version's node map while the zone lock is free")
        in_api = cur.phase not in USER_PHASES
        prev = self._prev
        if prev is not None and prev[0] is not cur and prev[1]:
            # the previous thread was switched out inside a zone API call
            self.in_api_switch = True
        self._prev = (cur, in_api)
        if kind.startswith("block:"):
            waitable = info
            if kind == "block:lock":
                owner = getattr(waitable, "owner", None)
                if owner is not None and owner.phase in USER_PHASES:
                    raise Violation(
                        "C12:lock-held-in-user-code",
                        f"T{cur.idx} ({cur.phase}) waits for the zone lock held by T{owner.idx} which is in user code ({owner.phase})",
                    )
                if cur.phase in ("reader_call", "reader_end"):
                    res.probes.inc("reader_waited_for_short_critical_section")
            elif kind == "block:event":
                if cur.phase in ("reader_call", "reader_end", "direct"):
                    raise Violation(
                        "C12:reader-waits",
                        f"reader T{cur.idx} blocked on an event (readers must never wait for writers)",
                    )
                if len([t for t in self.sched.threads if isinstance(t.blocked_on, threadsim.ShimEvent)]) >= 2:
                    res.probes.inc("two_or_more_waiters_queued")
        if kind == "line" and z._version_lock.held and z._version_lock.owner is cur:
            res.probes.inc("preempt_point_inside_critical_section")
        if kind == "event.set":
            self.woken_pending = self.sched.last_woken
        elif kind == "lock.acquire" and self.woken_pending is not None:
            # somebody else enters writer() between a wake-up and the woken
            # thread re-taking the lock
            if cur.idx == self.woken_pending:
                self.woken_pending = None
            elif cur.phase == "in_writer":
                res.probes.inc("newcomer_between_wakeup_and_relock")
        res.state(
            0 if z._write_txn is None else 1,
            len(z._write_waiters),
            z._write_event is not None,
            tuple(t.phase for t in self.sched.threads),
        )

    # --- workload programs ---
    def writer_op(self, t, op, n):
        z = self.zone
        s = self.sched
        log = self.log
        self.inv_counter += 1
        inv = self.inv_counter
        # real-time FIFO bookkeeping: everybody who already completed a
        # critical section of an unfinished writer() call is ahead of us.
        ahead = set()
        for o in s.threads:
            if o is not t and o.phase == "in_writer" and o.data.get("cs_done", 0) >= 1:
                ahead.add(o.data["inv"])
        self.must_precede[inv] = ahead
        t.data["inv"] = inv
        t.data["cs_done"] = 0
        t.phase = "in_writer"
        log.add("invoke_writer", t.idx, n)
        s.yield_point("op")
        try:
            txn = z.writer(True) if op.get("repl") else z.writer()
        except (MemoryError, _PlannedBase):
            # the injected failure (an allocation failure, or an interrupt-like BaseException): this writer ends here, the zone must stay usable
            self.admitted_inv.add(inv)
            t.phase = "idle"
            log.add("writer_failed_alloc", t.idx, n)
            self.res.probes.inc("writer_setup_failed_zone_must_stay_usable")
            return
        # ---- admitted ----
        t.data["txn"] = txn
        missing = [i for i in ahead if i not in self.admitted_inv and i not in _ALLOC["failed_inv"] and i not in threadsim.EVENT_ALLOC_FAULT.get("failed_inv", ())]
        self.admitted_inv.add(inv)
        self.admissions.append((t.idx, n))
        self.open.append(t)
        t.phase = "open"
        log.add("admitted", t.idx, n)
        if missing:
            raise Violation(
                "C12:fifo-overtake",
                f"T{t.idx} txn {n} was admitted before {len(missing)} writer(s) that had started waiting before it called writer()",
            )
        if len(self.open) > 1:
            raise Violation(
                "C12:two-writers-open",
                "threads %s all hold an open write transaction" % [x.idx for x in self.open],
            )
        try:
            self._writer_body(t, op, n, txn)
        finally:
            if t in self.open:
                self.open.remove(t)
            if t.phase != "idle":
                t.phase = "idle"
        self.scribble(t)
        log.add("ended", t.idx, n)

    def _writer_body(self, t, op, n, txn):
        s = self.sched
        if op.get("repl"):
            # a replacement writer (starts from an empty zone): admitted like any other; it gives up
            leftover = txn.get(self.name("counter"), "TXT")
            if leftover is not None or any(True for _ in txn.iterate_names()):
                raise Violation(
                    "C12:not-serial",
                    f"T{t.idx} opened a replacement transaction (writer(replacement=True)) on a zone that had content and does not start from an empty zone: it sees counter {None if leftover is None else self.read_int(leftover)}",
                )
            s.yield_point("op")
            t.phase = "ending"
            self.open.remove(t)
            txn.rollback()
            t.phase = "idle"
            self.res.probes.inc("replacement_writer_admitted")
            return
        end = op["end"]
        will_commit = end in ("commit", "with")
        counter = self.name("counter")
        c = self.read_int(txn.get(counter, "TXT"))
        # every commit invoked so far was invoked by a writer that held the
        # write right before us, so all of them must be visible, and nothing else
        # (a commit whose injected allocation failure has already fired, but whose call has not
        # returned yet, is known to fail and does not count)
        failing_now = _ALLOC["fired_commit"] - self.failed_accounted
        if c != self.commits_invoked - failing_now:
            raise Violation(
                "C12:not-serial",
                f"T{t.idx} was admitted and read counter {c} but {self.commits_invoked} commits had been made by earlier writers",
            )
        s.yield_point("op")
        newc = c + 1 if will_commit else c + POISON
        if op.get("noop") and will_commit:
            # a transaction that changes nothing creates no version
            s.yield_point("op")
            t.phase = "ending"
            self.open.remove(t)
            txn.commit()
            t.phase = "idle"
            self.res.probes.inc("commit_without_change")
            return
        txn.replace(counter, self.txt(newc))
        for i in range(self.cfg["slots"]):
            s.yield_point("op")
            txn.replace(self.name(f"slot{i}"), self.txt(newc))
        if op.get("nested2"):
            # while holding this zone's write transaction, write to the other zone
            self.second_zone_txn(t, "commit")
            t.phase = "open"
            self.res.probes.inc("second_zone_written_while_first_zone_txn_open")
        tag = f"{t.idx}-{n}"
        txn.replace(self.name(f"tag{t.idx}"), self.txt(tag))
        if op.get("serial"):
            txn.update_serial(name=self._apex())
        # read your own writes
        if self.read_int(txn.get(counter, "TXT")) != newc:
            raise Violation("C12:own-write-lost", f"T{t.idx} does not read its own write")
        s.yield_point("op")
        t.phase = "ending"
        self.open.remove(t)
        if end in ("commit", "with"):
            self.commits_invoked += 1
            try:
                if end == "commit":
                    txn.commit()
                else:
                    with txn:
                        pass
            except (MemoryError, _PlannedBase):
                # the injected failure at commit: per the documentation the commit
                # fails and the transaction is rolled back; the zone must stay usable
                self.commits_invoked -= 1
                self.failed_accounted += 1
                self.res.probes.inc("commit_failed_zone_must_stay_usable")
                # the transaction has ended (rolled back): a second attempt must be refused and
                # must not publish anything or touch the write slot somebody else may hold by now
                import dns.transaction

                s.yield_point("op")
                try:
                    txn.commit()
                except dns.transaction.AlreadyEnded:
                    pass
                except Exception as e:  # noqa: BLE001
                    raise Violation("C12:failed-commit-retry", f"T{t.idx}: commit() after a failed commit raised {type(e).__name__}: {e}")
                else:
                    raise Violation("C12:failed-commit-retry", f"T{t.idx}: commit() after a failed commit was accepted")
                self.log.add("commit_failed_alloc", t.idx)
                t.phase = "idle"
                return
            self._committed(t, tag, op)
        elif end == "rollback":
            txn.rollback()
        elif end == "baseexc":
            try:
                with txn:
                    raise _PlannedBase()
            except _PlannedBase:
                pass
        else:
            try:
                with txn:
                    raise _Planned()
            except _Planned:
                pass
        t.phase = "idle"

    def second_zone_txn(self, t, end):
        z2 = self.zone2
        s = self.sched
        t.phase = "in_writer2"
        s.yield_point("op")
        try:
            txn = z2.writer()
        except MemoryError:
            # the injected failure creating a wait event: this attempt ends here
            t.phase = "idle"
            self.log.add("zone2_writer_failed", t.idx)
            return
        t.data["txn2"] = txn
        self.open2.append(t)
        t.phase = "open2"
        try:
            if len(self.open2) > 1:
                raise Violation("C12:two-writers-open", "threads %s all hold an open write transaction on the second zone" % [x.idx for x in self.open2])
            counter = self.name("counter")
            c = self.read_int(txn.get(counter, "TXT"))
            if c != self.commits2:
                raise Violation("C12:not-serial", f"second zone: T{t.idx} was admitted and read counter {c} but {self.commits2} commits had been made")
            s.yield_point("op")
            txn.replace(counter, self.txt(c + 1 if end == "commit" else c + POISON))
            s.yield_point("op")
        finally:
            self.open2.remove(t)
        t.phase = "ending2"
        if end == "commit":
            self.commits2 += 1
            txn.commit()
        else:
            txn.rollback()
        t.phase = "idle"
        self.log.add("zone2", t.idx, end, self.commits2)

    def admin_op(self, t, op, n):
        z = self.zone
        s = self.sched
        s.yield_point("op")
        lim = op["limit"]
        t.phase = "admin"
        if lim == "default":
            z.set_pruning_policy(None)
        elif isinstance(lim, str):
            z.set_max_versions({"max1": 1, "max2": 2, "maxnone": None}[lim])
        else:
            z.set_pruning_policy(_Policy(lim))
        t.phase = "idle"
        self.res.probes.inc("retention_policy_changed_while_threads_run")
        self.log.add("admin", t.idx, str(lim))

    def _committed(self, t, tag, op):
        self.commits_returned += 1
        self.tags[t.idx] = tag
        if op.get("serial"):
            self.serial_expected += 1
        self.log.add("committed", t.idx, self.commits_returned)

    def check_snapshot(self, t, r, lo):
        """r is an open read transaction; lo = commits completed before it was opened."""
        s = self.sched
        c = self.read_int(r.get(self.name("counter"), "TXT"))
        hi = self.commits_invoked
        if c >= POISON or not (lo <= c <= hi):
            raise Violation(
                "C12:reader-bad-version",
                f"reader T{t.idx} sees counter {c}; {lo} commits had completed before it opened and {hi} had begun",
            )
        vid = r.version.id
        if vid != self.base_id + c:
            raise Violation(
                "C12:version-id",
                f"reader T{t.idx} sees counter {c} in version id {vid}, expected id {self.base_id + c}",
            )
        for i in range(self.cfg["slots"]):
            s.yield_point("op")
            v = self.read_int(r.get(self.name(f"slot{i}"), "TXT"))
            if v != c:
                raise Violation(
                    "C12:partial-visibility",
                    f"reader T{t.idx}: counter {c} but slot{i} {v}",
                )
        if hasattr(r.version, "bounds"):
            # several readers query one shared immutable version at the same time
            saved = t.phase
            t.phase = "reader_call"
            for qn, want_cut in (("host.sub", True), ("ns1", False), ("x.zcut", True), ("counter", False)):
                bnd = r.version.bounds(self.name(qn))
                if bool(bnd.is_delegation) != want_cut:
                    raise Violation("C12:reader-bad-bounds", f"reader T{t.idx}: bounds({qn}) on its snapshot says is_delegation={bnd.is_delegation}")
            t.phase = saved
            self.res.probes.inc("concurrent_bounds_queries_on_shared_version")
        return c

    def reader_op(self, t, op, n):
        z = self.zone
        s = self.sched
        s.yield_point("op")
        lo = self.commits_returned
        if z._write_txn is not None and self.open:
            self.res.probes.inc("reader_call_while_write_txn_open")
        t.phase = "reader_call"
        if op.get("by") == "id":
            # ask for the version this thread saw last (it may have been pruned meanwhile)
            want = t.data.get("max_seen", 0)
            try:
                r = z.reader(id=self.base_id + want)
            except KeyError:
                t.phase = "idle"
                self.res.probes.inc("reader_by_id_version_already_pruned")
                self.log.add("reader_by_id_gone", t.idx, want)
                return
            t.phase = "reading"
            self.log.add("reader_open_by_id", t.idx, want)
            c = self.check_snapshot(t, r, 0)
            if c != want:
                raise Violation("C12:reader-bad-version", f"reader T{t.idx} asked for version id {self.base_id + want} and sees counter {c}")
            self.res.probes.inc("reader_by_id_opened_old_version")
            s.yield_point("op")
            s.yield_point("op")
            if r.version not in z._versions:
                raise Violation("C12:pinned-version-pruned", f"version {r.version.id} of an open reader is no longer retained")
            t.phase = "reader_end"
            r.rollback()
            t.phase = "idle"
            self.log.add("reader_closed", t.idx, c)
            return
        r = z.reader()
        t.phase = "reading"
        self.log.add("reader_open", t.idx)
        c = self.check_snapshot(t, r, lo)
        seen = t.data.get("max_seen", 0)
        if c < seen:
            raise Violation(
                "C12:reader-went-back",
                f"reader T{t.idx} sees counter {c} after having seen {seen}",
            )
        t.data["max_seen"] = c
        s.yield_point("op")
        # a reader that stays open for a while (other threads commit, open newer readers, prune)
        for _ in range(op.get("hold", 0)):
            s.yield_point("op")
        if op.get("hold") and self.commits_returned > c:
            self.res.probes.inc("long_reader_outlived_a_commit")
        # the snapshot must not move while commits go on
        c2 = self.read_int(r.get(self.name("counter"), "TXT"))
        if c2 != c:
            raise Violation("C12:snapshot-moved", f"reader T{t.idx}: {c} then {c2}")
        t.phase = "reader_end"
        if op["how"] == "with":
            with r:
                pass
        else:
            r.rollback()
        t.phase = "idle"
        self.log.add("reader_closed", t.idx, c)

    def direct_op(self, t, op, n):
        z = self.zone
        s = self.sched
        s.yield_point("op")
        lo = self.commits_returned
        t.phase = "direct"
        rds = z.get_rdataset(self.name("counter"), "TXT")
        t.phase = "idle"
        c = self.read_int(rds)
        hi = self.commits_invoked
        if c >= POISON or not (lo <= c <= hi):
            raise Violation(
                "C12:direct-read-bad",
                f"T{t.idx} zone.get_rdataset sees counter {c}, bounds [{lo},{hi}]",
            )
        seen = t.data.get("max_seen", 0)
        if c < seen:
            raise Violation("C12:reader-went-back", f"T{t.idx} direct read {c} after {seen}")
        t.data["max_seen"] = c
        self.log.add("direct", t.idx, c)

    def thread_main(self, t, spec):
        s = self.sched
        if spec["late"]:
            s.wait_until(lambda: self.early_left == 0, "early-threads-done")
            self.res.probes.inc("late_newcomer_started_on_quiescent_zone")
        try:
            for n, op in enumerate(spec["ops"]):
                if op["k"] == "w":
                    self.writer_op(t, op, n)
                elif op["k"] == "r":
                    self.reader_op(t, op, n)
                elif op["k"] == "a":
                    self.admin_op(t, op, n)
                elif op["k"] == "w2":
                    self.second_zone_txn(t, op["end"])
                else:
                    self.direct_op(t, op, n)
        except (Violation, threadsim._Abort):
            raise
        except Exception as e:  # noqa: BLE001
            raise Violation(
                "C12:unexpected-exception",
                f"T{t.idx} in phase {t.phase}: {type(e).__name__}: {e}",
            )
        finally:
            if not spec["late"]:
                self.early_left -= 1

    # --- after the run ---
    def final_checks(self):
        z = self.zone
        if z._write_txn is not None:
            raise Violation("C12:end-state", "_write_txn is not None after all threads ended")
        if len(z._write_waiters) != 0:
            raise Violation("C12:end-state", "_write_waiters not empty after all threads ended")
        if z._write_event is not None:
            raise Violation("C12:end-state", "_write_event (exclusive right) still set after all threads ended")
        if len(z._readers) != 0:
            raise Violation("C12:end-state", "_readers not empty after all threads ended")
        if z._version_lock.held:
            raise Violation("C12:end-state", "_version_lock still held")
        with z.reader() as r:
            c = self.read_int(r.get(self.name("counter"), "TXT"))
            if c != self.commits_returned:
                raise Violation(
                    "C12:lost-update",
                    f"final counter {c} != number of committed transactions {self.commits_returned}",
                )
            for i in range(self.cfg["slots"]):
                v = self.read_int(r.get(self.name(f"slot{i}"), "TXT"))
                if v != c:
                    raise Violation("C12:lost-update", f"final slot{i} {v} != counter {c}")
            for i in range(self.nthreads):
                v = r.get(self.name(f"tag{i}"), "TXT")[0].strings[0].decode()
                want = self.tags.get(i, "none")
                if v != want:
                    raise Violation(
                        "C12:not-serial", f"final tag{i} {v!r} != last committed {want!r}"
                    )
            soa = r.get(self._apex(), "SOA")[0]
            if soa.serial != self.serial_expected:
                raise Violation(
                    "C12:lost-update",
                    f"final SOA serial {soa.serial} != {self.serial_expected}",
                )
            if r.version.id != self.base_id + c:
                raise Violation("C12:version-id", "final version id is not base + commits")
        ids = [v.id for v in z._versions]
        if ids != list(range(ids[0], ids[0] + len(ids))) or ids[-1] != self.base_id + self.commits_returned:
            raise Violation("C12:version-id", f"retained version ids {ids}")
        if z.nodes is not z._versions[-1].nodes:
            raise Violation("C12:end-state", "zone.nodes is not the newest version's node map")
        pol = z._pruning_policy
        if isinstance(pol, _Policy) and pol.limit is not None and len(ids) > max(1, pol.limit):
            raise Violation("C12:retention", f"{len(ids)} versions retained after all transactions ended although the policy in force allows {pol.limit}")
        z2 = self.zone2
        if z2._write_txn is not None or len(z2._write_waiters) != 0 or z2._write_event is not None or len(z2._readers) != 0 or z2._version_lock.held:
            raise Violation("C12:end-state", "the second zone's admission state is not at rest after all threads ended")
        with z2.reader() as r:
            c = self.read_int(r.get(self.name("counter"), "TXT"))
            if c != self.commits2:
                raise Violation("C12:lost-update", f"second zone: final counter {c} != number of committed transactions {self.commits2}")

    def _apex(self):
        import dns.name

        return dns.name.empty if self.cfg["relativize"] else dns.name.from_text("example.")


def run_case(case, keep_log=False):
    res = RunResult()
    log = EventLog(keep=keep_log)
    from checks import zonesim

    if zonesim.set_btree_branching(case.get("btree_t")) < 127:
        res.faults.inc("btree_branching_factor_lowered")
    world = _World(case, res, log)
    rng = sub_rng(case["seed"], "sched")
    sched = Scheduler(
        rng,
        strategy=case["cfg"]["strategy"],
        schedule=case.get("schedule"),
        step_cap=60000,
        on_step=world.on_step,
        log=log,
    )
    world.sched = sched
    for spec in case["threads"]:
        sched.spawn(lambda t, spec=spec: world.thread_main(t, spec))
    _ALLOC["n"] = case.get("alloc_fail")
    _ALLOC["commit_n"] = case.get("alloc_fail_commit")
    _ALLOC["fired"] = 0
    _ALLOC["fired_commit"] = 0
    _ALLOC["failed_inv"] = set()
    _ALLOC["skip_zone"] = world.zone2
    _ALLOC["exc"] = _PlannedBase if case.get("alloc_exc") == "base" else MemoryError
    threadsim.EVENT_ALLOC_FAULT["n"] = case.get("event_alloc_fail")
    threadsim.EVENT_ALLOC_FAULT["fired"] = 0
    threadsim.EVENT_ALLOC_FAULT["failed_inv"] = set()
    try:
        failure = sched.run()
    finally:
        _ALLOC["n"] = None
        _ALLOC["commit_n"] = None
        _ALLOC["skip_zone"] = None
        threadsim.EVENT_ALLOC_FAULT["n"] = None
    res.faults.inc("alloc_failure_in_version_setup", _ALLOC["fired"])
    res.faults.inc("alloc_failure_at_commit", _ALLOC["fired_commit"])
    res.faults.inc("alloc_failure_creating_wait_event", threadsim.EVENT_ALLOC_FAULT["fired"])
    if failure is None:
        try:
            world.final_checks()
        except Violation as v:
            failure = v
    if isinstance(failure, Deadlock):
        res.violation = ("C12:deadlock", str(failure))
    elif isinstance(failure, Violation):
        if failure.cls == "step-cap":
            res.violation = ("C12:livelock", failure.detail)
        elif failure.cls == "thread-exception":
            res.violation = ("C12:unexpected-exception", failure.detail)
        else:
            res.violation = (failure.cls, failure.detail)
    res.steps = sched.steps
    res.digest = log.digest()
    res.nontrivial = world.in_api_switch and sched.switches > 0
    res.faults.inc("preemption_at_sync_op", sched.sync_yields)
    res.faults.inc("preemption_at_line", sched.line_yields)
    res.faults.inc("context_switch", sched.switches)
    for spec in case["threads"]:
        for op in spec["ops"]:
            if op["k"] == "w" and op["end"] in ("rollback", "exc", "baseexc"):
                res.faults.inc("txn_abort_" + op["end"])
    res.trace = {"schedule": sched.recorded}
    if keep_log:
        res.extra["log"] = log.lines
    return res


# ---------------------------------------------------------------------------
# minimisation: candidates, most aggressive first


def shrink(case):
    import copy

    th = case["threads"]
    # drop a whole thread
    for i in range(len(th)):
        if len(th) > 1:
            c = copy.deepcopy(case)
            del c["threads"][i]
            # schedule entries refer to thread indices: remap
            if c.get("schedule"):
                ns = []
                for a, k, b in c["schedule"]:
                    if a == i or b == i:
                        continue
                    ns.append([a - (a > i), k, b - (b > i)])
                c["schedule"] = ns
            yield c
    # drop one op
    for i, t in enumerate(th):
        for j in range(len(t["ops"])):
            if len(t["ops"]) > 1:
                c = copy.deepcopy(case)
                del c["threads"][i]["ops"][j]
                yield c
    # simplify ops / config
    for i, t in enumerate(th):
        if t["late"]:
            c = copy.deepcopy(case)
            c["threads"][i]["late"] = False
            yield c
        for j, op in enumerate(t["ops"]):
            if op["k"] == "w" and (op["end"] != "commit" or op["serial"] or op.get("noop") or op.get("nested2")):
                c = copy.deepcopy(case)
                c["threads"][i]["ops"][j] = {"k": "w", "end": "commit", "serial": False, "noop": False, "nested2": False}
                yield c
            if op["k"] == "r" and op.get("by") == "id":
                c = copy.deepcopy(case)
                c["threads"][i]["ops"][j]["by"] = "latest"
                yield c
            if op["k"] == "r" and op.get("hold"):
                c = copy.deepcopy(case)
                c["threads"][i]["ops"][j]["hold"] = op["hold"] // 2
                yield c
    cfg = case["cfg"]
    if case.get("alloc_fail_commit") is not None and case["alloc_fail_commit"] > 1:
        c = copy.deepcopy(case)
        c["alloc_fail_commit"] -= 1
        yield c
    if case.get("alloc_fail") is not None and case.get("alloc_fail_commit") is not None:
        c = copy.deepcopy(case)
        c["alloc_fail"] = None
        yield c
    if case.get("alloc_fail") is not None and case["alloc_fail"] > 1:
        c = copy.deepcopy(case)
        c["alloc_fail"] -= 1
        yield c
    for key, simple in (("filler", 0), ("slots", 1), ("max_versions", None), ("zone", "versioned"), ("relativize", True)):
        if cfg[key] != simple:
            c = copy.deepcopy(case)
            c["cfg"][key] = simple
            yield c
    # schedule: remove chunks of recorded non-default decisions
    sch = case.get("schedule")
    if sch:
        n = len(sch)
        chunk = max(1, n // 2)
        while chunk >= 1:
            for start in range(0, n, chunk):
                c = copy.deepcopy(case)
                del c["schedule"][start : start + chunk]
                yield c
            if chunk == 1:
                break
            chunk //= 2


EXPECTED_PROBES = [
    "newcomer_between_wakeup_and_relock",
    "two_or_more_waiters_queued",
    "reader_call_while_write_txn_open",
    "preempt_point_inside_critical_section",
    "late_newcomer_started_on_quiescent_zone",
    "commit_without_change",
    "writer_setup_failed_zone_must_stay_usable",
    "commit_failed_zone_must_stay_usable",
    "retention_policy_changed_while_threads_run",
    "reader_by_id_opened_old_version",
    "long_reader_outlived_a_commit",
    "reader_by_id_version_already_pruned",
    "second_zone_written_while_first_zone_txn_open",
]


def known_match(finding, case, violation):
    return False
