"""C13 network tier: the scripted transfer streams of c13 pushed through
dns.query.inbound_xfr and dns.asyncquery.inbound_xfr over the simulated network."""

import socket

from simkit.core import Violation, sub_rng
from simkit import netsim
from simkit.netsim import SimBusyWait, SimDeadlock, TcpScript, UdpScript
from simkit.vtime import VT
from checks import zonesim as Z

_patched = False


def _patch():
    global _patched
    if _patched:
        return
    import dns.query
    import dns.asyncquery
    import dns.message
    import dns.renderer

    for mod in (dns.query, dns.asyncquery, dns.message, dns.renderer):
        mod.time = VT
    dns.query.socket_factory = netsim.fake_socket_factory
    dns.query._wait_for = netsim.pump
    _patched = True


def add_net_params(case, rng):
    case["tier"] = "net"
    style = case["style"]
    if style in ("udp_ixfr", "usetcp"):
        case["transport"] = rng.choice(["udp_only", "udp_try_first"])
    elif style == "axfr":
        case["transport"] = "tcp"
    else:
        case["transport"] = rng.choice(["tcp", "tcp", "udp_try_first"])
    case["net"] = {
        "cuts": sorted(rng.randrange(1, 600) for _ in range(rng.choice([0, 1, 3, 10]))),
        "gaps": [rng.choice([0.0, 0.0, 0.01, 0.2]) for _ in range(12)],
        "max_recv": [rng.choice([1, 2, 5, 100]) for _ in range(rng.choice([0, 0, 8]))],
        "fault": rng.choice(["none", "none", "none", "eof", "stall", "reset"]),
        "fault_pos": rng.randrange(0, 600),
        "timeout": rng.choice([1.0, 3.0]),
        "lifetime": rng.choice([None, 5.0]),
        "connect": rng.choice([["ok", 0.0], ["ok", 0.0], ["ok", 0.05], ["refused", 0.0]]),
    }
    return case


def _chunks(stream, cuts, gaps):
    pos = sorted(set(c for c in cuts if 0 < c < len(stream)))
    out = []
    prev = 0
    t = 0.0
    gi = 0
    for p in pos + [len(stream)]:
        if p <= prev:
            continue
        t += gaps[gi % len(gaps)] if gaps else 0.0
        gi += 1
        out.append((round(t + 0.0001 * gi, 6), stream[prev:p]))
        prev = p
    return out


def run_net(case, res, log):
    from checks import c13

    import dns.query
    import dns.asyncquery
    import dns.asyncbackend
    import dns.xfr
    import dns.exception
    import dns.rdatatype

    _patch()
    versions = [(s, [tuple(r) for r in recs]) for s, recs in case["versions"]]
    style = case["style"]
    mode = "AXFR" if style == "axfr" else "IXFR"
    net_cfg = case["net"]
    msgs, info, truncated = c13.make_messages(case)
    outs = {}
    worlds = ["sync", "async"] + (["trio"] if netsim.have_trio() else [])
    for world in worlds:
        if case.get("world") not in (None, world):
            continue
        if world == "trio":
            netsim.install_trio_seam()
            res.probes.inc("trio_backend_transfer")
        b = Z.Bench(case["kind"], case["relativize"])
        start_model = c13.secondary_at(b, versions, case["k"])
        base_serial = versions[case["k"]][0]
        # the reference verdict(s): for UDP the one-message form, for TCP the full stream
        wires = c13.render_messages(b, msgs)
        net = netsim.reset_network()
        VT.reset(30000.0)
        transport = case["transport"]
        src = ("10.0.0.1", 53)
        udp_msgs = None
        if transport in ("udp_only", "udp_try_first"):
            if style in ("udp_ixfr", "usetcp", "uptodate"):
                udp_msgs = msgs[:1]
                udp_wires = wires[:1]
            else:
                # a server that cannot fit the answer in a datagram sends the lone new SOA
                final = [tuple(r) for r in case["stream"]][0]
                udp_msgs = [{"rcode": 0, "question": msgs[0]["question"], "records": [final]}]
                udp_wires = c13.render_messages(b, udp_msgs)
            net.udp_scripts["*"] = UdpScript([(0.01, udp_wires[0], src)])
        stream = b"".join(len(w).to_bytes(2, "big") + w for w in wires)
        f = net_cfg["fault"]
        fpos = net_cfg["fault_pos"] % (len(stream) + 1)
        data = stream if f == "none" else stream[:fpos]
        rx = _chunks(data, net_cfg["cuts"], net_cfg["gaps"])
        last = rx[-1][0] if rx else 0.0
        if f == "eof":
            rx.append((round(last + 0.0003, 6), "EOF"))
        elif f == "reset":
            rx.append((round(last + 0.0003, 6), "RESET"))
        elif f == "none":
            rx.append((round(last + 0.5, 6), "EOF"))
        script = TcpScript(connect=tuple(net_cfg["connect"]), rx=rx, max_recv=net_cfg["max_recv"], rx_after_request=True)
        net.tcp_scripts["*"] = script
        # expected verdict
        try:
            if udp_msgs is not None:
                try:
                    verdict = c13.ref_xfr(b, mode, base_serial, True, start_model, udp_msgs)
                    used = "udp"
                except c13.Reject as e:
                    if e.reason == "use-tcp" and transport == "udp_try_first":
                        verdict = c13.ref_xfr(b, mode, base_serial, False, start_model, msgs)
                        used = "tcp"
                    else:
                        raise
            else:
                verdict = c13.ref_xfr(b, mode, base_serial, False, start_model, msgs)
                used = "tcp"
        except c13.Reject as e:
            verdict = ("reject", e.reason)
            used = "?"
        try:
            q, serial = dns.xfr.make_query(b.zone, serial=(None if mode == "AXFR" else base_serial))
        except ValueError as e:
            raise Violation("C13:make-query", f"make_query(serial={base_serial}) raised ValueError: {e}")
        udp_mode = {"tcp": dns.query.UDPMode.NEVER, "udp_only": dns.query.UDPMode.ONLY, "udp_try_first": dns.query.UDPMode.TRY_FIRST}[transport]
        before = b.snap_nodes()
        exc = None
        try:
            if world == "sync":
                dns.query.inbound_xfr("10.0.0.1", b.zone, q, timeout=net_cfg["timeout"], lifetime=net_cfg["lifetime"], udp_mode=udp_mode)
            else:
                backend = dns.asyncbackend.get_backend("trio" if world == "trio" else "asyncio")

                async def go():
                    await dns.asyncquery.inbound_xfr("10.0.0.1", b.zone, q, timeout=net_cfg["timeout"], lifetime=net_cfg["lifetime"], udp_mode=udp_mode, backend=backend)

                _, exc = (netsim.run_trio if world == "trio" else netsim.run_async)(go, net)
        except SimBusyWait:
            raise
        except Exception as e:  # noqa: BLE001
            exc = e
        after = b.snap_nodes()
        changed = after != before
        tag = f"[{world}] [{case['kind']}/{'rel' if case['relativize'] else 'abs'}] net style={style} transport={transport} netfault={f}@{fpos}/{len(stream)} connect={net_cfg['connect']} streamfault={info['fired']}"
        if isinstance(exc, SimDeadlock):
            raise Violation("C13:hang", f"{tag}: the transfer waits forever")
        if exc is not None and changed:
            raise Violation("C13:error-after-applied", f"{tag}: {type(exc).__name__}({exc}) was raised but the zone content changed (reference verdict {verdict[0]} {verdict[1] if verdict[0] == 'reject' else ''})")
        if b.kind != "plain" and b.zone._write_txn is not None:
            raise Violation("C13:write-txn-left-open", f"{tag}: a write transaction is still open after inbound_xfr returned/raised")
        if world == "trio" and type(exc).__name__ == "BrokenResourceError" and isinstance(exc.__cause__, OSError):
            exc = exc.__cause__  # trio.SocketStream's documented translation of a socket error
        if exc is not None and not isinstance(exc, (dns.exception.DNSException, EOFError, OSError, KeyError, ValueError)):
            raise Violation("C13:unexpected-exception", f"{tag}: {type(exc).__name__}: {exc}")
        if exc is None:
            if verdict[0] in ("reject", "incomplete"):
                raise Violation("C13:bad-stream-accepted", f"{tag}: the stream must be rejected ({verdict}) but inbound_xfr returned normally; changed={changed}")
            Z.compare("C13:applied-content-differs", b, after, verdict[1].snapshot(), f"{tag}: transfer reported success")
            if used == "tcp" and (net_cfg["connect"][0] != "ok"):
                raise Violation("C13:applied-content-differs", f"{tag}: success although the TCP connection was refused")
        else:
            # an error: legitimate only if something actually went wrong
            net_bad = used in ("tcp", "?") and (f != "none" or net_cfg["connect"][0] != "ok")
            if verdict[0] in ("applied", "uptodate") and not net_bad:
                # the time budget may legitimately run out when gaps are long
                total_gap = sum(g for g, _ in rx[-1:])
                if not (isinstance(exc, dns.exception.Timeout)):
                    raise Violation("C13:valid-stream-rejected", f"{tag}: {type(exc).__name__}({exc}) although stream and network were fine")
        if exc is not None and isinstance(exc, dns.exception.Timeout) and used in ("tcp", "?") and net_cfg["connect"][0] == "ok":
            # a stalled peer: the wait must end by the per-message timeout after the last data,
            # and by the overall lifetime
            last_data = max([t for t, c in rx if not isinstance(c, str)] + [0.0])
            bound = last_data + net_cfg["timeout"] + net_cfg["connect"][1] + 0.1
            if net_cfg["lifetime"] is not None:
                bound = min(bound, net_cfg["lifetime"] + 0.1)
            if udp_msgs is not None:
                bound += net_cfg["timeout"] + 0.1
            if VT.elapsed() > bound:
                raise Violation("C13:timeout-too-late", f"{tag}: Timeout only after {VT.elapsed():.3f}s of simulated time (last data at {last_data:.3f}s, per-message timeout {net_cfg['timeout']}, lifetime {net_cfg['lifetime']})")
        outs[world] = ("exc", type(exc).__name__) if exc is not None else ("ok", Z.stable_hash(after))
        log.add(world, outs[world], transport, f, info["fired"], verdict[0])
        res.sim_seconds += VT.elapsed()
    for other in [w for w in worlds[1:] if w in outs and "sync" in outs]:
        if outs["sync"] != outs[other]:
            raise Violation("C13:sync-async-differ", f"net: sync {outs['sync']} {other} {outs[other]} style={style} transport={case['transport']} netfault={net_cfg['fault']} streamfault={info['fired']}")
    res.probes.inc("net_tier_runs")
    if net_cfg["fault"] != "none":
        res.faults.inc("net_" + net_cfg["fault"])
    if info["fired"]:
        res.faults.inc("stream_" + info["fired"])
    res.faults.inc("tcp_fragment", len(net_cfg["cuts"]))
    res.nontrivial = True
    res.state("net", case["transport"], net_cfg["fault"], info["fired"], tuple(sorted(set(o[0] for o in outs.values()))))
