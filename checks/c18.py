"""C18 -- a network exchange returns only a genuine response; stream framing is exact.

Engine: netsim.  Real: dns.query.{udp, receive_udp, send_udp, udp_with_fallback, tcp,
receive_tcp, send_tcp, _net_read, _net_write, _connect, _matches_destination,
_addresses_equal} over FakeSockets created by the library through socket_factory (or
passed through sock=), and the dns.asyncquery twins over the real asyncio backend on a
virtual-time event loop and over the real trio backend (trio's scheduler, cancel scopes and
SocketStream on a clock that reads simulated time).  Stub: sockets/transports, the network, the peer.
One fault script drives all three worlds; outcomes must agree with an independent
acceptance model and with each other.
"""

import copy
import socket
import struct

from simkit.core import EventLog, RunResult, Violation, sub_rng
from simkit import netsim
from simkit.netsim import FakeSocket, SimBusyWait, SimDeadlock, TcpScript, UdpScript
from simkit.vtime import VT

PROP = "C18"
ENGINE = "netsim"
LEVEL = "exploration"
HANG_WATCHDOG = True  # (no simulator threads: a run that does not come back is a violation, see simkit.runner.run_guarded)
TIERS = {
    "quick": {"runs": 200000, "budget_s": 75},
    "thorough": {"runs": 2500000, "budget_s": 1500},
}
DET_EVERY = 100
RULE = (
    "one run = one exchange script executed by the sync and the async implementation: (udp) 0-6 datagrams from the "
    "fault catalogue (forged source/port, wrong id/question/opcode, not a response, garbage, cut, bit flip, trailing "
    "bytes, TC genuine/forged, rcode-with-empty-question, ICMP error, duplicates) before/instead of/after the genuine "
    "reply at seeded times around the deadline, under a seeded option combination; (tcp) 1-3 framed messages through "
    "seeded fragmentation, would-block gaps, capped recv sizes, short writes, EOF/reset/stall positions and connect "
    "outcomes; (fallback) UDP TC followed by TCP; non-trivial = at least one fault fired before the outcome was decided; "
    "distinct = distinct event-log digests"
)
STATE_MEASURE = "distinct (exchange kind, option vector, ordered fault-kind sequence, outcome) tuples"
COMPONENTS_REAL = [
    "dns.query.udp/receive_udp/send_udp/udp_with_fallback/tcp/receive_tcp/send_tcp/_net_read/_net_write/_connect/_udp_recv/_udp_send/_matches_destination/_addresses_equal/make_socket",
    "dns.asyncquery.udp/receive_udp/send_udp/udp_with_fallback/tcp/receive_tcp/send_tcp/_read_exactly",
    "dns._asyncio_backend (Backend.make_socket, _DatagramProtocol queue, _DatagramSocket, _StreamSocket, _maybe_wait_for), asyncio streams and wait_for",
    "dns._trio_backend (Backend.make_socket, DatagramSocket, StreamSocket, _maybe_timeout) with the real trio run loop, cancel scopes and trio.SocketStream",
    "dns.message.from_wire / Message.is_response / dns.inet",
]
COMPONENTS_STUB = ["sockets (FakeSocket via socket_factory / sock=)", "dns.query._wait_for (event pump on virtual time)", "asyncio selector/transports (VirtualLoop)", "trio.socket.socket (TrioFakeSocket, a trio.socket.SocketType) and the trio clock (reads the simulated clock, jumps to the next deadline when idle)", "network and peer"]
EXPECTED_PROBES = [
    "udp_skipped_forged_source",
    "udp_skipped_wrong_id",
    "udp_skipped_malformed",
    "udp_raised_unexpected_source",
    "udp_raised_bad_response",
    "udp_truncated_reported",
    "udp_forged_tc_skipped",
    "udp_timeout_at_deadline",
    "udp_genuine_after_deadline_not_returned",
    "udp_address_textual_variant_accepted",
    "udp_multicast_other_source_accepted",
    "udp_rcode_empty_question_accepted",
    "tcp_chunk_size_1",
    "tcp_eof_inside_prefix",
    "tcp_eof_inside_body",
    "tcp_deadline_inside_body",
    "tcp_would_block_on_send",
    "tcp_short_write",
    "tcp_connect_refused",
    "fallback_used_tcp",
    "wait_started_exactly_at_deadline",
    "wait_started_with_zero_time_left",
    "udp_forged_scope_or_flow",
    "trio_backend_exchange",
]

_d = None

# worlds: the sync code on fake sockets, the async twins on the asyncio backend (virtual-time event loop)
# and on the trio backend (trio's own scheduler and cancel scopes on a clock reading simulated time)
WORLDS = ["sync", "async"]
_TRIO_NAMES = {"BrokenResourceError": "ConnectionResetError"}  # trio.SocketStream's documented translation of ECONNRESET


def _arun(world):
    return netsim.run_trio if world == "trio" else netsim.run_async


def _backend(world):
    return _d.asyncbackend.get_backend("trio" if world == "trio" else "asyncio")


def _ename(world, exc):
    n = type(exc).__name__
    return _TRIO_NAMES.get(n, n) if world == "trio" else n


def _worlds_agree(outs, what):
    ws = [w for w in WORLDS if w in outs]
    for w in ws[1:]:
        if outs[w] != outs[ws[0]]:
            raise Violation("C18:sync-async-differ", f"{what}: {ws[0]} {outs[ws[0]]} {w} {outs[w]}")


def setup():
    global _d
    import dns
    import dns.query
    import dns.asyncquery
    import dns.asyncbackend
    import dns._asyncio_backend
    import dns.message
    import dns.rrset
    import dns.exception
    import dns.flags
    import dns.inet
    import dns.renderer
    import dns.entropy

    _d = dns
    # ids the library draws for itself must not come from the OS entropy pool
    import dns.entropy

    dns.entropy.random_16 = lambda: 0x2A2A
    for mod in (dns.query, dns.asyncquery, dns.message, dns.renderer):
        mod.time = VT
    dns.query.socket_factory = netsim.fake_socket_factory
    dns.query._wait_for = netsim.pump
    if netsim.have_trio():
        import dns._trio_backend

        netsim.install_trio_seam()
        if "trio" not in WORLDS:
            WORLDS.append("trio")
    # seam audit
    VT.reset(5000.0)
    if dns.query._compute_times(2.0) != (5000.0, 5002.0) or dns.asyncquery._compute_times(1.0) != (5000.0, 5001.0):
        from simkit.core import HarnessError

        raise HarnessError("seam dns.query.time / dns.asyncquery.time")
    s = dns.query.make_socket(socket.AF_INET, socket.SOCK_DGRAM, None)
    if not isinstance(s, FakeSocket):
        from simkit.core import HarnessError

        raise HarnessError("seam dns.query.socket_factory")


# ---------------------------------------------------------------------------
# independent raw-byte reader (header + question only)


def raw_parse(d):
    """Returns dict(id, qr, opcode, tc, rcode, qd, question) or None if the header is short;
    question is a list of (lowercased name labels tuple, type, class) or None when unparsable."""
    if len(d) < 12:
        return None
    ident, flags, qd, an, ns, ar = struct.unpack("!HHHHHH", d[:12])
    out = {
        "id": ident,
        "qr": bool(flags & 0x8000),
        "opcode": (flags >> 11) & 0xF,
        "tc": bool(flags & 0x0200),
        "rcode": extended_rcode(d),
        "qd": qd,
        "question": None,
    }
    pos = 12
    qs = []
    try:
        for _ in range(qd):
            labels = []
            p = pos
            jumped = False
            hops = 0
            while True:
                c = d[p]
                if c == 0:
                    p += 1
                    if not jumped:
                        pos = p
                    break
                if c & 0xC0 == 0xC0:
                    tgt = ((c & 0x3F) << 8) | d[p + 1]
                    if not jumped:
                        pos = p + 2
                    jumped = True
                    hops += 1
                    if hops > 20 or tgt >= p:
                        raise IndexError
                    p = tgt
                    continue
                if c & 0xC0:
                    raise IndexError
                labels.append(bytes(d[p + 1 : p + 1 + c]).lower())
                if len(d) < p + 1 + c:
                    raise IndexError
                p += 1 + c
            t, c = struct.unpack("!HH", d[pos : pos + 4])
            pos += 4
            qs.append((tuple(labels), t, c))
        out["question"] = qs
    except (IndexError, struct.error):
        out["question"] = None
    return out


def walk_end(d):
    """Independent structural walk over all four sections: the offset just past the last record the
    header announces, or None when the records run off the end / are not walkable."""
    if len(d) < 12:
        return None
    _, _, qd, an, ns, ar = struct.unpack("!HHHHHH", d[:12])
    pos = 12

    def skip_name(p):
        while True:
            if p >= len(d):
                return None
            c = d[p]
            if c == 0:
                return p + 1
            if c & 0xC0 == 0xC0:
                return p + 2 if p + 2 <= len(d) else None
            if c & 0xC0:
                return None
            p += 1 + c

    for _ in range(qd):
        pos = skip_name(pos)
        if pos is None or pos + 4 > len(d):
            return None
        pos += 4
    for _ in range(an + ns + ar):
        pos = skip_name(pos)
        if pos is None or pos + 10 > len(d):
            return None
        rdlen = struct.unpack("!H", d[pos + 8 : pos + 10])[0]
        pos += 10 + rdlen
        if pos > len(d):
            return None
    return pos


def extended_rcode(d):
    """The full 12-bit RCODE: the header's 4 bits plus the 8 upper bits carried in the TTL of an OPT
    record of the additional section (RFC 6891), found by the independent record walk."""
    if len(d) < 12:
        return None
    _, flags, qd, an, ns, ar = struct.unpack("!HHHHHH", d[:12])
    low = flags & 0xF
    pos = 12

    def skip_name(p):
        while True:
            if p >= len(d):
                return None
            c = d[p]
            if c == 0:
                return p + 1
            if c & 0xC0 == 0xC0:
                return p + 2 if p + 2 <= len(d) else None
            if c & 0xC0:
                return None
            p += 1 + c

    for _ in range(qd):
        pos = skip_name(pos)
        if pos is None or pos + 4 > len(d):
            return low
        pos += 4
    for _ in range(an + ns + ar):
        pos = skip_name(pos)
        if pos is None or pos + 10 > len(d):
            return low
        rtype, _rclass, ttl, rdlen = struct.unpack("!HHIH", d[pos : pos + 10])
        if rtype == 41:
            return ((ttl >> 24) << 4) | low
        pos += 10 + rdlen
        if pos > len(d):
            return low
    return low


def has_trailing_octets(d):
    e = walk_end(d)
    return e is not None and e < len(d)


def is_response_raw(q_raw, r_raw):
    """The documented acceptance rule on raw header/question data."""
    if r_raw is None:
        return False
    if not r_raw["qr"] or r_raw["id"] != q_raw["id"] or r_raw["opcode"] != q_raw["opcode"]:
        return False
    if r_raw["rcode"] in (1, 2, 4, 5) and r_raw["qd"] == 0:
        return True
    if r_raw["question"] is None:
        return False
    return sorted(set(r_raw["question"])) == sorted(set(q_raw["question"]))


# ---------------------------------------------------------------------------
# building datagrams

DESTS = {
    "v4": ("10.0.0.1", socket.AF_INET),
    "v6": ("2001:db8::1", socket.AF_INET6),
    "m4": ("224.0.0.251", socket.AF_INET),
    "m6": ("ff02::fb", socket.AF_INET6),
}


def _src(dest_kind, port, variant=None):
    addr, af = DESTS[dest_kind]
    if variant == "addr":
        addr = "10.0.0.2" if af == socket.AF_INET else "2001:db8::2"
    elif variant == "textual":
        addr = "10.0.0.1" if af == socket.AF_INET else "2001:DB8:0:0:0:0:0:1"
    elif variant == "other_unicast":
        addr = "10.0.0.77" if af == socket.AF_INET else "2001:db8::77"
    if variant == "port":
        port = port + 1
    if af == socket.AF_INET:
        if variant == "scope":
            return (addr, port + 1)
        return (addr, port)
    if variant == "scope":
        return (addr, port, 0, 7)  # same address and port, other scope id (another interface)
    if variant == "flow":
        return (addr, port, 9, 0)
    return (addr, port, 0, 0)


def make_query(case):
    dns = _d
    import dns.message

    q = dns.message.make_query(case["qname"], case["qtype"])
    q.id = case["qid"]
    if case.get("two_q"):
        # a query carrying two different questions: a response must carry both
        import dns.rrset
        import dns.name
        import dns.rdataclass
        import dns.rdatatype

        q.question.append(dns.rrset.RRset(dns.name.from_text("second." + case["qname"]), dns.rdataclass.IN, dns.rdatatype.A))
    return q


def genuine_wire(q, marker, tc=False, rcode=0):
    dns = _d
    import dns.message
    import dns.rrset
    import dns.flags

    r = dns.message.make_response(q)
    r.set_rcode(rcode)
    if q.question[0].rdtype == 1:
        r.answer.append(dns.rrset.from_text(q.question[0].name, 300, "IN", "A", f"10.1.{marker // 250}.{marker % 250 + 1}"))
    else:
        r.answer.append(dns.rrset.from_text(q.question[0].name, 300, "IN", "TXT", f'"m{marker}"'))
    if tc:
        r.flags |= dns.flags.TC
    return r.to_wire()


def build_datagram(q, qwire, kind, arg, marker, rng_bytes):
    """Returns payload (bytes or exception)."""
    g = genuine_wire(q, marker)
    qlen = len(qwire)  # header + question; the response shares this prefix layout
    if kind == "genuine":
        return g
    if kind == "wrong_id":
        b = bytearray(g)
        b[0] ^= 0x40
        return bytes(b)
    if kind == "not_response":
        b = bytearray(g)
        b[2] &= 0x7F
        return bytes(b)
    if kind == "wrong_opcode":
        b = bytearray(g)
        b[2] = (b[2] & 0x87) | (2 << 3)
        return bytes(b)
    if kind == "wrong_qtype":
        b = bytearray(g)
        b[qlen - 3] ^= 0x01
        return bytes(b)
    if kind == "wrong_qclass":
        b = bytearray(g)
        b[qlen - 1] ^= 0x02
        return bytes(b)
    if kind == "wrong_qname":
        b = bytearray(g)
        b[13] = b[13] ^ 0x01 if chr(b[13]).isalpha() else b[13]
        b[14] = (b[14] + 1) if b[14] in range(ord("a"), ord("y")) else b[14]
        return bytes(b)
    if kind == "qname_case":
        b = bytearray(g)
        for i in range(12, qlen - 4):
            if chr(b[i]).isalpha() and (arg + i) % 2:
                b[i] ^= 0x20
        return bytes(b)
    if kind == "garbage":
        return bytes(rng_bytes[: arg % 60])
    if kind == "cut":
        return g[: arg % len(g)]
    if kind == "bitflip":
        b = bytearray(g)
        bit = arg % (len(g) * 8)
        b[bit // 8] ^= 1 << (bit % 8)
        return bytes(b)
    if kind == "trailing":
        return g + bytes(rng_bytes[: 1 + arg % 8])
    if kind == "rcode_noq":
        rc = (1, 2, 4, 5)[arg % 4]
        return struct.pack("!HHHHHH", q.id, 0x8000 | rc, 0, 0, 0, 0)
    if kind == "rcode_noq_ext":
        # header RCODE 1/2/4/5, no question, but an OPT record whose extended bits make the real
        # RCODE BADSIG/BADKEY/BADNAME/BADALG-like: not one of the rcodes that excuse a missing question
        rc = (1, 2, 4, 5)[arg % 4]
        opt = b"\x00" + struct.pack("!HHIH", 41, 1232, (1 + arg % 3) << 24, 0)
        return struct.pack("!HHHHHH", q.id, 0x8000 | rc, 0, 0, 0, 1) + opt
    if kind == "rcode_noq_opcode":
        # the rcodes that excuse a missing question do not excuse another opcode
        rc = (1, 2, 4, 5)[arg % 4]
        return struct.pack("!HHHHHH", q.id, 0x8000 | ((2 + arg % 3) << 11) | rc, 0, 0, 0, 0)
    if kind == "rcode_noq_nx":
        return struct.pack("!HHHHHH", q.id, 0x8000 | 3, 0, 0, 0, 0)
    if kind == "tc_genuine":
        return genuine_wire(q, marker, tc=True)
    if kind == "tc_trailing":
        return genuine_wire(q, marker, tc=True) + bytes(rng_bytes[: 1 + arg % 8])
    if kind == "tc_forged":
        b = bytearray(genuine_wire(q, marker, tc=True))
        b[1] ^= 0x01
        return bytes(b)
    if kind == "tc_cut":
        w = genuine_wire(q, marker, tc=True)
        return w[: qlen + 3 + arg % max(1, len(w) - qlen - 3)]
    if kind == "extra_question":
        # the genuine reply plus a second, different question
        extra = b"\x05other\x07example\x00" + struct.pack("!HH", 1, 1)
        b = bytearray(g[:qlen] + extra + g[qlen:])
        b[4:6] = struct.pack("!H", 2)
        return bytes(b)
    if kind == "dup_question":
        # as many questions as the query has, but the first one repeated instead of the others
        import dns.message as _m

        one = _m.Message(id=0)
        one.question = [q.question[0]]
        len1 = len(one.to_wire()) - 12
        nq = len(q.question)
        b = bytearray(g[:12] + g[12 : 12 + len1] * nq + g[qlen:])
        b[4:6] = struct.pack("!H", nq)
        return bytes(b)
    if kind == "noq_noerror":
        return struct.pack("!HHHHHH", q.id, 0x8000, 0, 0, 0, 0)
    if kind == "icmp":
        return ConnectionRefusedError(111, "Connection refused")
    if kind == "empty":
        return b""
    if kind == "unknown_tsig":
        # a well-formed reply carrying a TSIG record nobody asked for: the reader refuses it with an error
        # that is not a format error (unknown key); anybody can forge this without knowing a key
        from simkit import reftsig

        mac = bytes((arg + i) % 256 for i in range(32))
        return reftsig.append_tsig(g, reftsig.tsig_rr("forged.key.", "hmac-sha256.", 1_600_000_000 + arg, 300, mac, q.id))
    raise ValueError(kind)


UDP_KINDS = [
    "genuine", "genuine", "wrong_id", "not_response", "wrong_opcode", "wrong_qtype", "wrong_qclass", "wrong_qname",
    "qname_case", "garbage", "cut", "bitflip", "trailing", "rcode_noq", "rcode_noq_nx", "rcode_noq_ext", "rcode_noq_opcode", "tc_genuine", "tc_forged",
    "tc_cut", "tc_trailing", "icmp", "empty", "forged_addr", "forged_port", "textual", "mcast_other", "extra_question", "dup_question", "noq_noerror", "forged_scope", "forged_flow", "forged_garbage", "forged_tc", "forged_cut", "unknown_tsig",
]


# ---------------------------------------------------------------------------
# case generation


def gen_case(seed, tier):
    rng = sub_rng(seed, "workload")
    r = rng.random()
    base = {
        "prop": PROP,
        "seed": seed,
        "qname": rng.choice(["www.example.", "a.b.example.org.", "MiXed.Example.", "x."]),
        "qtype": rng.choice(["A", "A", "TXT"]),
        # (ids at the edges of the 16-bit range now and then: 0 is what the DoQ/DoH3 code leaves on a reused query object)
        "qid": rng.choice([0, 0, 1, 0xFFFF, 0x8000]) if rng.random() < 0.08 else rng.randrange(65536),
        "timeout": rng.choice([2.0, 2.0, 0.5, 5.0]),
        "two_q": rng.random() < 0.12,
    }
    if r < 0.03:
        base["kind"] = "tick"
        base["transport"] = rng.choice(["udp", "udp", "tcp"])
        base["before"] = rng.choice([1e-5, 2e-5, 5e-5])
        base["tick"] = rng.choice([2e-5, 1e-4])
        base["late"] = rng.choice([0.01, 0.5, 20.0])
        base["skip_kind"] = rng.choice(["wrong_id", "garbage", "not_response"])
        return base
    if r < 0.55:
        base["kind"] = "udp"
        dest = rng.choice(["v4", "v4", "v6", "m4", "m6"])
        opts = {
            "ignore_unexpected": rng.random() < 0.6,
            "ignore_errors": rng.random() < 0.6,
            "raise_on_truncation": rng.random() < 0.5,
            "ignore_trailing": rng.random() < 0.3,
            "one_rr_per_rrset": rng.random() < 0.2,
            "sock_given": rng.random() < 0.3,
            "low_level": rng.random() < 0.15,
        }
        dels = []
        n = rng.choice([0, 1, 2, 3, 4, 6])
        t = 0.0
        for i in range(n):
            t += rng.choice([0.01, 0.05, 0.2, 0.4, 0.9]) * base["timeout"] / 2.0
            kind = rng.choice(UDP_KINDS)
            dels.append({"k": kind, "arg": rng.randrange(100000), "t": round(t + rng.random() * 0.001 + 0.0001, 6)})
        if rng.random() < 0.7:
            t += rng.choice([0.01, 0.3, 0.8]) * base["timeout"] / 2.0
            dels.append({"k": "genuine", "arg": 0, "t": round(t + 0.0002, 6)})
        if rng.random() < 0.2 and dels:
            j = rng.randrange(len(dels))
            dels.insert(j + 1, dict(dels[j], t=round(dels[j]["t"] + 0.00005, 6), dup=True))
        if rng.random() < 0.12:
            # a datagram that must be ignored lands exactly on the deadline, the genuine reply later:
            # the wait that follows starts with zero time left
            dels = [d for d in dels if d["t"] < base["timeout"]]
            dels.append({"k": rng.choice(["wrong_id", "garbage", "not_response", "forged_port"]), "arg": rng.randrange(1000), "t": base["timeout"], "tie": True})
            dels.append({"k": "genuine", "arg": 0, "t": round(base["timeout"] + rng.choice([0.001, 0.5, 30.0]), 6)})
            opts["ignore_errors"] = True
            opts["ignore_unexpected"] = True
        base.update({"dest": dest, "opts": opts, "deliveries": dels, "port": rng.choice([53, 5353])})
        return base
    if r < 0.8:
        base["kind"] = "tcp_recv"
        nmsg = rng.choice([1, 1, 2, 3])
        base["nmsg"] = nmsg
        base["zero_frame"] = rng.random() < 0.05
        base["cuts"] = sorted(rng.randrange(1, 400) for _ in range(rng.choice([0, 1, 2, 5, 12])))
        base["all_single"] = rng.random() < 0.08
        base["gaps"] = [rng.choice([0.0, 0.0, 0.01, 0.2, 0.7]) * base["timeout"] for _ in range(14)]
        base["end"] = rng.choice(["none", "none", "eof", "eof", "reset", "stall"])
        base["end_pos"] = rng.randrange(0, 400)
        base["max_recv"] = [rng.choice([1, 2, 3, 7, 100]) for _ in range(rng.choice([0, 0, 5, 40]))]
        base["ignore_trailing"] = rng.random() < 0.2
        base["tie_at_deadline"] = rng.random() < 0.12
        if rng.random() < 0.04:
            base["big_frame"] = rng.choice([32767, 32768, 32768, 40000, 65535])
            base["all_single"] = False
        return base
    if r < 0.9:
        base["kind"] = "tcp_send"
        base["as_message"] = rng.random() < 0.5
        base["tx_accept"] = [rng.choice([0, 0, 1, 1, 2, 3, 10, 1000]) for _ in range(rng.choice([0, 1, 3, 8, 40]))]
        base["tx_gap"] = rng.choice([0.01, 0.1, 0.6]) * base["timeout"]
        return base
    base["kind"] = rng.choice(["tcp_full", "tcp_full", "fallback"])
    base["stale_render"] = rng.random() < 0.2
    base["connect"] = rng.choice([["ok", 0.0], ["ok", 0.0], ["ok", 0.1], ["refused", 0.0], ["refused", 0.05], ["hang"]])
    base["reply"] = rng.choice(["genuine", "genuine", "genuine", "wrong_id", "garbage", "eof", "stall", "not_response", "trailing", "tc_trailing"])
    base["cuts"] = sorted(rng.randrange(1, 120) for _ in range(rng.choice([0, 1, 3, 8])))
    base["gaps"] = [rng.choice([0.0, 0.01, 0.1]) * base["timeout"] for _ in range(10)]
    base["tx_accept"] = [rng.choice([0, 1, 2, 5, 1000]) for _ in range(rng.choice([0, 0, 2, 6]))]
    base["tx_gap"] = rng.choice([0.01, 0.1]) * base["timeout"]
    base["max_recv"] = [rng.choice([1, 2, 5, 100]) for _ in range(rng.choice([0, 0, 10]))]
    base["dest"] = rng.choice(["v4", "v6"])
    base["udp_first"] = rng.choice(["tc_genuine", "tc_genuine", "genuine", "tc_forged_then_tc", "timeout"])
    base["ignore_trailing"] = rng.random() < 0.3
    return base


# ---------------------------------------------------------------------------
# UDP


def _udp_materialise(case, q, qwire):
    rng = sub_rng(case["seed"], "bytes")
    out = []
    for i, d in enumerate(case["deliveries"]):
        k = d["k"]
        variant = None
        kind = k
        if k == "forged_addr":
            variant, kind = "addr", "genuine"
        elif k == "forged_port":
            variant, kind = "port", "genuine"
        elif k == "textual":
            variant, kind = "textual", "genuine"
        elif k == "mcast_other":
            variant, kind = "other_unicast", "genuine"
        elif k == "forged_scope":
            variant, kind = "scope", "genuine"
        elif k == "forged_flow":
            variant, kind = "flow", "genuine"
        elif k == "forged_garbage":
            # two defects at once: from somebody else, and not parsable
            variant, kind = "addr", "garbage"
        elif k == "forged_tc":
            variant, kind = "addr", "tc_genuine"
        elif k == "forged_cut":
            variant, kind = "port", "cut"
        junk = bytes(rng.randrange(256) for _ in range(64))
        payload = build_datagram(q, qwire, kind, d["arg"], i, junk)
        out.append((d["t"], payload, _src(case["dest"], case["port"], variant), k))
    return out


def _source_ok(case, src):
    """Independent source check: binary address equality and same port (+ rest of tuple);
    multicast destination: any address, same port."""
    import ipaddress

    dest = _src(case["dest"], case["port"])
    if case["dest"] in ("m4", "m6"):
        return src[1:] == dest[1:]
    try:
        return ipaddress.ip_address(src[0]) == ipaddress.ip_address(dest[0]) and src[1:] == dest[1:]
    except ValueError:
        return False


def _strict_parse(wire, opts, raise_on_truncation):
    dns = _d
    return dns.message.from_wire(
        wire,
        one_rr_per_rrset=opts.get("one_rr_per_rrset", False),
        ignore_trailing=opts.get("ignore_trailing", False),
        raise_on_truncation=raise_on_truncation,
    )


def expect_udp(case, q_raw, mats, start=0):
    """The documented behaviour of the option matrix over an arrival sequence.
    Returns ('ok', index) | ('exc', set of acceptable class names) | ('timeout',) |
    ('alt', [alternatives]) when the raw bytes do not determine the decision."""
    dns = _d
    o = case["opts"]
    T = case["timeout"]
    fired = []
    for i, (t, payload, src, k) in enumerate(mats):
        if i < start:
            continue
        if t >= T:
            continue
        if isinstance(payload, BaseException):
            return ("exc", {type(payload).__name__}), fired + ["icmp"]
        if not o.get("low_level") and not _source_ok(case, src):
            if o["ignore_unexpected"]:
                fired.append("skip_source")
                continue
            return ("exc", {"UnexpectedSource"}), fired + ["raise_source"]
        raw = raw_parse(payload)
        resp = is_response_raw(q_raw, raw)
        # strictness of the payload is delegated to the real strict parser (C18 is not about it)
        parse_exc = None
        truncated = False
        try:
            _strict_parse(payload, o, o["raise_on_truncation"])
        except dns.message.Truncated:
            truncated = True
        except Exception as e:  # noqa: BLE001
            parse_exc = type(e).__name__
        trailing = not o.get("ignore_trailing", False) and has_trailing_octets(payload)
        if trailing and parse_exc is None and not truncated:
            # octets after the last record and trailing data not allowed: malformed, whatever the
            # library's own parser says about it (independent of the flags in the header)
            parse_exc = "TrailingJunk"
            fired.append("trailing_octets_seen_by_independent_walk")
        if truncated and trailing and not o["raise_on_truncation"]:
            truncated = False
            parse_exc = "TrailingJunk"
        if truncated:
            ambiguous = (
                raw is not None
                and raw["question"] is None
                and raw["qr"]
                and raw["id"] == q_raw["id"]
                and raw["opcode"] == q_raw["opcode"]
            )
            if o["ignore_errors"] and not resp:
                if ambiguous:
                    # TC set, header matches, question section damaged: whether the partial
                    # message "seems to be a response" is not decidable from the property
                    rest, _ = expect_udp(case, q_raw, mats, i + 1)
                    return ("alt", [("exc", {"Truncated"}), rest]), fired
                fired.append("skip_forged_tc")
                continue
            return ("exc", {"Truncated"}), fired + ["truncated"]
        if parse_exc is not None:
            if o["ignore_errors"]:
                fired.append("skip_malformed")
                continue
            return ("exc", {parse_exc}), fired + ["raise_malformed"]
        if not resp:
            if o["ignore_errors"]:
                fired.append("skip_mismatch:" + k)
                continue
            if o.get("low_level"):
                # receive_udp() itself only checks the response when ignore_errors is set
                return ("ok", i), fired + ["accept_lowlevel_unchecked:" + k]
            return ("exc", {"BadResponse"}), fired + ["raise_bad_response"]
        return ("ok", i), fired + ["accept:" + k]
    return ("timeout",), fired


def _run_udp_sync(case, q, mats):
    dns = _d
    o = case["opts"]
    net = netsim.reset_network()
    VT.reset(7000.0)
    where, af = DESTS[case["dest"]]
    net.udp_scripts["*"] = UdpScript([(t, p, s) for t, p, s, _ in mats])
    kw = {}
    if o["sock_given"]:
        kw["sock"] = FakeSocket(af, socket.SOCK_DGRAM)
    if o.get("low_level"):
        # the documented low-level pair with destination=None (accept from any source)
        try:
            s = FakeSocket(af, socket.SOCK_DGRAM)
            dest = _src(case["dest"], case["port"])
            expiration = VT.now + case["timeout"]
            dns.query.send_udp(s, q, dest, expiration)
            r, rt, frm = dns.query.receive_udp(
                s, None, expiration, o["ignore_unexpected"], o["one_rr_per_rrset"], None, b"", o["ignore_trailing"],
                o["raise_on_truncation"], o["ignore_errors"], q,
            )
            r._verif_from = frm
            return ("ok", r), VT.elapsed(), net
        except SimDeadlock:
            return ("hang",), VT.elapsed(), net
        except SimBusyWait:
            raise
        except Exception as e:  # noqa: BLE001
            return ("exc", type(e).__name__, e), VT.elapsed(), net
    try:
        r = dns.query.udp(
            q, where, timeout=case["timeout"], port=case["port"], ignore_unexpected=o["ignore_unexpected"],
            one_rr_per_rrset=o["one_rr_per_rrset"], ignore_trailing=o["ignore_trailing"],
            raise_on_truncation=o["raise_on_truncation"], ignore_errors=o["ignore_errors"], **kw,
        )
        return ("ok", r), VT.elapsed(), net
    except SimDeadlock:
        return ("hang",), VT.elapsed(), net
    except SimBusyWait:
        raise
    except Exception as e:  # noqa: BLE001
        return ("exc", type(e).__name__, e), VT.elapsed(), net


def _run_udp_async(case, q, mats, world="async"):
    dns = _d
    import dns.asyncbackend

    o = case["opts"]
    net = netsim.reset_network()
    VT.reset(7000.0)
    where, af = DESTS[case["dest"]]
    net.udp_scripts["*"] = UdpScript([(t, p, s) for t, p, s, _ in mats])
    backend = _backend(world)

    async def go():
        kw = {}
        if o["sock_given"]:
            kw["sock"] = await backend.make_socket(af, socket.SOCK_DGRAM, 0, None, None)
        if o.get("low_level"):
            s = await backend.make_socket(af, socket.SOCK_DGRAM, 0, None, None)
            async with s:
                dest = _src(case["dest"], case["port"])
                expiration = VT.now + case["timeout"]
                await dns.asyncquery.send_udp(s, q, dest, expiration)
                r, rt, frm = await dns.asyncquery.receive_udp(
                    s, None, expiration, o["ignore_unexpected"], o["one_rr_per_rrset"], None, b"", o["ignore_trailing"],
                    o["raise_on_truncation"], o["ignore_errors"], q,
                )
                r._verif_from = frm
                return r
        return await dns.asyncquery.udp(
            q, where, timeout=case["timeout"], port=case["port"], ignore_unexpected=o["ignore_unexpected"],
            one_rr_per_rrset=o["one_rr_per_rrset"], ignore_trailing=o["ignore_trailing"],
            raise_on_truncation=o["raise_on_truncation"], ignore_errors=o["ignore_errors"], backend=backend, **kw,
        )

    r, exc = _arun(world)(go, net)
    if exc is None:
        return ("ok", r), VT.elapsed(), net
    if isinstance(exc, SimDeadlock):
        return ("hang",), VT.elapsed(), net
    return ("exc", _ename(world, exc), exc), VT.elapsed(), net


def _run_udp_trio(case, q, mats):
    return _run_udp_async(case, q, mats, "trio")


def _check_udp_outcome(world, case, q, q_raw, mats, want, out, elapsed, res):
    if want[0] == "alt":
        last = None
        for alt in want[1]:
            try:
                return _check_udp_outcome(world, case, q, q_raw, mats, alt, out, elapsed, res)
            except Violation as v:
                last = v
        raise last
    dns = _d
    o = case["opts"]
    T = case["timeout"]
    tag = f"[{world}] udp opts={ {k: v for k, v in o.items() if v} } dest={case['dest']}"
    seq = [(round(t, 4), k) for t, _, _, k in mats]
    if out[0] == "ok":
        r = out[1]
        if getattr(r, "errors", None):
            raise Violation("C18:returned-with-parse-errors", f"{tag}: returned a message carrying recorded parse errors {r.errors[:1]}; arrivals {seq}")
        # which delivered datagram is it?  (two deliveries can carry identical bytes)
        matches = []
        for i, (t, payload, src, k) in enumerate(mats):
            if isinstance(payload, BaseException):
                continue
            try:
                cand = _strict_parse(payload, o, False)
            except Exception:  # noqa: BLE001
                continue
            if cand == r and cand.id == r.id and cand.flags == r.flags and getattr(r, "wire", None) in (None, payload):
                matches.append(i)
        if not matches:
            raise Violation("C18:returned-not-delivered", f"{tag}: the returned message is not the strict parse of any delivered datagram; arrivals {seq}")
        if o.get("low_level"):
            good = [i for i in matches if mats[i][0] < T and (want == ("ok", i) or is_response_raw(q_raw, raw_parse(mats[i][1])))]
            frm = getattr(r, "_verif_from", None)
            if good and frm is not None and not any(tuple(frm) == tuple(mats[i][2]) for i in good):
                raise Violation("C18:wrong-from-address", f"{tag}: receive_udp reported source {frm}, the datagram came from {[mats[i][2] for i in good]}")
        else:
            good = [i for i in matches if is_response_raw(q_raw, raw_parse(mats[i][1])) and _source_ok(case, mats[i][2]) and mats[i][0] < T]
        if not good:
            idx = matches[0]
            t, payload, src, k = mats[idx]
            if t >= T and is_response_raw(q_raw, raw_parse(payload)) and _source_ok(case, src):
                raise Violation("C18:returned-after-deadline", f"{tag}: returned datagram #{idx} that arrived at {t} >= timeout {T}")
            raise Violation("C18:returned-not-genuine", f"{tag}: returned datagram #{idx} ({k}) which is not a genuine response from the queried address; arrivals {seq}")
        idx = want[1] if (want[0] == "ok" and want[1] in good) else good[0]
        k = mats[idx][3]
        # independent of any parser: the records the header announces must lie inside the datagram and,
        # unless trailing data was allowed, end exactly at its end
        we = walk_end(mats[idx][1])
        if we is None or (we < len(mats[idx][1]) and not o.get("ignore_trailing", False)):
            raise Violation("C18:returned-malformed", f"{tag}: returned datagram #{idx} ({k}) whose records {'run past its end' if we is None else 'end before its end (trailing octets)'}; arrivals {seq}")
        if elapsed > T + 1e-6:
            raise Violation("C18:returned-after-deadline", f"{tag}: returned after {elapsed}s with timeout {T}")
        if want != ("ok", idx):
            raise Violation("C18:wrong-datagram", f"{tag}: returned datagram #{idx} ({k}), documented behaviour gives {want}; arrivals {seq}")
        return ("ok", idx)
    if out[0] == "hang":
        raise Violation("C18:hang", f"{tag}: waits forever although a timeout was given")
    name = out[1]
    if want[0] == "timeout":
        if name != "Timeout":
            raise Violation("C18:wrong-exception", f"{tag}: raised {name} but nothing acceptable or offending arrived before the deadline; arrivals {seq}")
        if abs(elapsed - T) > 1e-6:
            raise Violation("C18:timeout-time", f"{tag}: Timeout raised after {elapsed}s, deadline {T}s")
        return ("exc", "Timeout")
    if want[0] == "ok":
        raise Violation("C18:genuine-not-returned", f"{tag}: raised {name} but datagram #{want[1]} is the first genuine response and nothing before it may raise; arrivals {seq}")
    if name not in want[1]:
        raise Violation("C18:wrong-exception", f"{tag}: raised {name}, documented behaviour is {sorted(want[1])}; arrivals {seq}")
    return ("exc", name)


def _run_udp(case, res, log):
    q = make_query(case)
    qwire = q.to_wire()
    q_raw = raw_parse(qwire)
    mats = _udp_materialise(case, q, qwire)
    want, fired = expect_udp(case, q_raw, mats)
    outs = {}
    for world, fn in (("sync", _run_udp_sync), ("async", _run_udp_async), ("trio", _run_udp_trio)):
        if case.get("world") not in (None, world) or world not in WORLDS:
            continue
        out, elapsed, net = fn(case, q, mats)
        res.sim_seconds += elapsed
        sent = net.udp_scripts["*"].sent
        if len(sent) != 1 or sent[0][1] != qwire:
            raise Violation("C18:request-bytes", f"[{world}] the datagram sent is not exactly the query's wire form ({len(sent)} sends)")
        outs[world] = _check_udp_outcome(world, case, q, q_raw, mats, want, out, elapsed, res)
        log.add(world, outs[world])
    _worlds_agree(outs, "udp")
    # probes / faults
    for f in fired:
        res.faults.inc("udp_" + f.split(":")[0])
        if f == "skip_source":
            res.probes.inc("udp_skipped_forged_source")
        elif f.startswith("skip_mismatch:wrong_id"):
            res.probes.inc("udp_skipped_wrong_id")
        elif f == "skip_malformed":
            res.probes.inc("udp_skipped_malformed")
        elif f == "raise_source":
            res.probes.inc("udp_raised_unexpected_source")
        elif f == "raise_bad_response":
            res.probes.inc("udp_raised_bad_response")
        elif f == "truncated":
            res.probes.inc("udp_truncated_reported")
        elif f == "skip_forged_tc":
            res.probes.inc("udp_forged_tc_skipped")
        elif f == "accept:textual":
            res.probes.inc("udp_address_textual_variant_accepted")
        elif f == "accept:mcast_other":
            res.probes.inc("udp_multicast_other_source_accepted")
        elif f == "accept:rcode_noq":
            res.probes.inc("udp_rcode_empty_question_accepted")
    if any(d.get("tie") for d in case["deliveries"]):
        res.probes.inc("wait_started_exactly_at_deadline")
    if any(d["k"] in ("forged_scope", "forged_flow") for d in case["deliveries"]) and case["dest"] in ("v6",):
        res.probes.inc("udp_forged_scope_or_flow")
    if want[0] == "timeout":
        res.probes.inc("udp_timeout_at_deadline")
        if any(k == "genuine" and t >= case["timeout"] for t, _, _, k in mats):
            res.probes.inc("udp_genuine_after_deadline_not_returned")
    res.nontrivial = len(fired) > 1 or (len(fired) == 1 and not fired[0].startswith("accept:genuine"))
    res.state("udp", tuple(sorted(k for k, v in case["opts"].items() if v)), tuple(f for f in fired), want[0])


# ---------------------------------------------------------------------------
# TCP


def _chunks(stream, cuts, gaps, all_single):
    """Cut the byte stream at the given positions; returns [(delay, chunk)] with cumulative delays."""
    if all_single:
        pos = list(range(1, len(stream)))
    else:
        pos = sorted(set(c for c in cuts if 0 < c < len(stream)))
    out = []
    prev = 0
    t = 0.0
    gi = 0
    for p in pos + [len(stream)]:
        if p <= prev:
            continue
        t += gaps[gi % len(gaps)] if gaps else 0.0
        gi += 1
        out.append((round(t + 0.0001 * gi, 6), stream[prev:p]))
        prev = p
    return out


def pad_to(w, size):
    """The genuine reply w grown to exactly `size` octets by one TXT record in the additional section."""
    room = size - len(w) - 12
    if room < 2:
        return w
    rdata = bytearray()
    while room - len(rdata) >= 256:
        rdata += b"\xff" + b"p" * 255
    rest = room - len(rdata)
    if rest >= 1:
        rdata += bytes([rest - 1]) + b"p" * (rest - 1)
    rr = b"\xc0\x0c" + struct.pack("!HHIH", 16, 1, 60, len(rdata)) + bytes(rdata)
    b = bytearray(w + rr)
    b[10:12] = struct.pack("!H", struct.unpack("!H", w[10:12])[0] + 1)
    return bytes(b)


def _tcp_recv_script(case, q):
    wires = [genuine_wire(q, i) for i in range(case["nmsg"])]
    if case.get("big_frame"):
        # a message in the upper half of what the 16-bit length prefix can announce
        wires[-1] = pad_to(wires[-1], case["big_frame"])
    frames = [len(w).to_bytes(2, "big") + w for w in wires]
    if case.get("zero_frame"):
        frames.insert(min(1, len(frames)), b"\x00\x00")
        wires.insert(min(1, len(wires)), b"")
    stream = b"".join(frames)
    end = case["end"]
    endpos = case["end_pos"] % (len(stream) + 1)
    data = stream if end in ("none",) else stream[:endpos]
    rx = _chunks(data, case["cuts"], case["gaps"], case.get("all_single"))
    if case.get("tie_at_deadline") and len(data) > 3:
        # first part early, a middle part exactly at the deadline, the rest afterwards
        a, b2 = 1 + case["end_pos"] % (len(data) - 2), len(data) - 1
        b2 = max(a + 1, min(b2, a + 1 + case["end_pos"] % 7))
        rx = [(0.0001, data[:a]), (case["timeout"], data[a:b2]), (round(case["timeout"] + 0.25, 6), data[b2:])]
    last_t = rx[-1][0] if rx else 0.0
    if end == "eof":
        rx.append((round(last_t + 0.0003, 6), "EOF"))
    elif end == "reset":
        rx.append((round(last_t + 0.0003, 6), "RESET"))
    elif end == "none":
        rx.append((round(last_t + 0.0003, 6), "EOF"))
    return wires, frames, stream, data, rx


def expect_tcp_recv(case, frames, data_len, rx):
    """Per receive_tcp call: ('ok', i) | ('exc', name).  Arrival time of byte k is the
    delay of the chunk containing it."""
    T = case["timeout"]
    # arrival time per byte offset
    times = []
    for t, c in rx:
        if isinstance(c, (bytes, bytearray)):
            times += [t] * len(c)
    end_kind = None
    end_t = None
    for t, c in rx:
        if c in ("EOF", "RESET"):
            end_kind, end_t = c, t
    out = []
    off = 0
    for i, f in enumerate(frames):
        need = off + len(f)
        if need <= len(times) and times[need - 1] < T:
            if len(f) == 2:
                out.append(("exc", "ShortHeader"))  # a zero-length frame; the caller stops here
                break
            out.append(("ok", i))
            off = need
            continue
        # not all bytes arrive in time
        if end_kind is not None and end_t < T and len(times) < need:
            out.append(("exc", "EOFError" if end_kind == "EOF" else "ConnectionResetError"))
        else:
            out.append(("exc", "Timeout"))
        break
    return out


def _tcp_recv_world(world, case, q, wires, rx):
    dns = _d
    import dns.asyncbackend

    net = netsim.reset_network()
    VT.reset(9000.0)
    script = TcpScript(connect=("ok", 0.0), rx=rx, max_recv=case["max_recv"])
    results = []
    nframes = len(wires)
    if world == "sync":
        s = FakeSocket(socket.AF_INET, socket.SOCK_STREAM)
        s.attach(script)
        expiration = VT.now + case["timeout"]
        for _ in range(nframes):
            try:
                r, rt = dns.query.receive_tcp(s, expiration, ignore_trailing=case["ignore_trailing"])
                results.append(("ok", r))
            except SimDeadlock:
                results.append(("hang",))
                break
            except SimBusyWait:
                raise
            except Exception as e:  # noqa: BLE001
                results.append(("exc", type(e).__name__))
                break
        return results, s
    net.tcp_scripts["*"] = script
    backend = _backend(world)

    async def go():
        s = await backend.make_socket(socket.AF_INET, socket.SOCK_STREAM, 0, None, ("10.0.0.1", 53), 5.0)
        expiration = VT.now + case["timeout"]
        async with s:
            for _ in range(nframes):
                try:
                    r, rt = await dns.asyncquery.receive_tcp(s, expiration, ignore_trailing=case["ignore_trailing"])
                    results.append(("ok", r))
                except Exception as e:  # noqa: BLE001
                    results.append(("exc", _ename(world, e)))
                    break

    r, exc = _arun(world)(go, net)
    if isinstance(exc, SimDeadlock):
        results.append(("hang",))
    elif exc is not None:
        results.append(("exc", "outer:" + type(exc).__name__))
    return results, None


def _run_tcp_recv(case, res, log):
    dns = _d
    q = make_query(case)
    wires, frames, stream, data, rx = _tcp_recv_script(case, q)
    want = expect_tcp_recv(case, frames, len(data), rx)
    outs = {}
    for world in WORLDS:
        if case.get("world") not in (None, world):
            continue
        got, sock = _tcp_recv_world(world, case, q, wires, rx)
        norm = []
        for j, g in enumerate(got):
            if g[0] == "ok":
                # which framed message is it, byte-exactly?
                idx = None
                for i, w in enumerate(wires):
                    if w and dns.message.from_wire(w) == g[1] and g[1].id == q.id:
                        if dns.message.from_wire(w).answer == g[1].answer:
                            idx = i
                            break
                if idx is None:
                    raise Violation("C18:tcp-framing", f"[{world}] receive_tcp call {j} returned a message that is none of the framed messages (merged/short/shifted frame)")
                norm.append(("ok", idx))
            else:
                norm.append(tuple(g[:2]))
        if norm != want:
            raise Violation(
                "C18:tcp-framing" if any(w[0] == "ok" for w in want) or any(n[0] == "ok" for n in norm) else "C18:tcp-error-kind",
                f"[{world}] receive_tcp sequence {norm}, expected {want}; frames {[len(f) for f in frames]}, arrivals {[(t, (len(c) if not isinstance(c, str) else c)) for t, c in rx][:12]}, timeout {case['timeout']}, max_recv {case['max_recv'][:6]}",
            )
        if VT.elapsed() > case["timeout"] + 1e-6 and norm and norm[-1][0] == "ok":
            raise Violation("C18:returned-after-deadline", f"[{world}] receive_tcp returned a message after the deadline")
        outs[world] = norm
        log.add(world, norm)
        res.sim_seconds += VT.elapsed()
    nbytes_chunks = [len(c) for _, c in rx if not isinstance(c, str)]
    if case.get("tie_at_deadline"):
        res.probes.inc("wait_started_exactly_at_deadline")
    if nbytes_chunks and max(nbytes_chunks) == 1:
        res.probes.inc("tcp_chunk_size_1")
    if want and want[-1] == ("exc", "EOFError"):
        off = sum(len(f) for f in frames[: len(want) - 1])
        have = len(data) - off
        res.probes.inc("tcp_eof_inside_prefix" if have < 2 else "tcp_eof_inside_body")
        res.faults.inc("tcp_eof")
    if want and want[-1] == ("exc", "Timeout"):
        res.probes.inc("tcp_deadline_inside_body")
        res.faults.inc("tcp_stall_to_deadline")
    if want and want[-1] == ("exc", "ConnectionResetError"):
        res.faults.inc("tcp_reset")
    res.faults.inc("tcp_fragment", len(nbytes_chunks))
    res.nontrivial = len(nbytes_chunks) > 1 or case["end"] != "none" or bool(case["max_recv"])
    res.state("tcp_recv", tuple(want), len(nbytes_chunks) > 1)


def expect_tcp_send(case, total):
    """Simulate the acceptance pattern: returns (('ok',) | ('exc','Timeout') | ('either',)), bytes
    delivered.  A blocked write that becomes possible within the event loop's clock resolution of
    the deadline may legitimately go either way."""
    # same absolute-time float arithmetic as the simulated clock (start 9000.0)
    t = 9000.0
    T = t + case["timeout"]
    sent = 0
    i = 0
    acc = case["tx_accept"]
    near = False
    while sent < total:
        if i < len(acc):
            k = acc[i]
            i += 1
            if k == 0:
                t = t + case["tx_gap"]
                if abs(t - T) < 1e-6:
                    near = True
                if t >= T:
                    return (("either",) if near else ("exc", "Timeout")), sent
                continue
            sent += min(k, total - sent)
        else:
            sent = total
    return (("either",) if near else ("ok",)), sent


def _run_tcp_send(case, res, log):
    dns = _d
    import dns.asyncbackend

    q = make_query(case)
    wire = q.to_wire()
    expected_bytes = len(wire).to_bytes(2, "big") + wire
    want, want_sent = expect_tcp_send(case, len(expected_bytes))
    what = q if case["as_message"] else wire
    for world in WORLDS:
        if case.get("world") not in (None, world):
            continue
        net = netsim.reset_network()
        VT.reset(9000.0)
        script = TcpScript(connect=("ok", 0.0), rx=[], tx_accept=case["tx_accept"], tx_gap=case["tx_gap"])
        if world == "sync":
            s = FakeSocket(socket.AF_INET, socket.SOCK_STREAM)
            s.attach(script)
            try:
                n, st = dns.query.send_tcp(s, what, VT.now + case["timeout"])
                got = ("ok", n)
            except SimBusyWait:
                raise
            except Exception as e:  # noqa: BLE001
                got = ("exc", type(e).__name__)
        else:
            net.tcp_scripts["*"] = script
            backend = _backend(world)

            async def go():
                s = await backend.make_socket(socket.AF_INET, socket.SOCK_STREAM, 0, None, ("10.0.0.1", 53), 5.0)
                async with s:
                    return await dns.asyncquery.send_tcp(s, what, VT.now + case["timeout"])

            r, exc = _arun(world)(go, net)
            got = ("ok", r[0]) if exc is None else ("exc", _ename(world, exc))
        recv = bytes(script.received)
        if want[0] == "either":
            if got not in (("ok", len(expected_bytes)), ("exc", "Timeout")):
                raise Violation("C18:tcp-send", f"[{world}] send_tcp -> {got}")
            if got[0] == "ok" and recv != expected_bytes:
                raise Violation("C18:tcp-send-bytes", f"[{world}] peer received bytes that differ from the framed message")
        elif want[0] == "ok":
            if got != ("ok", len(expected_bytes)):
                raise Violation("C18:tcp-send", f"[{world}] send_tcp -> {got}, expected ('ok', {len(expected_bytes)}); accept pattern {case['tx_accept'][:10]}")
            if recv != expected_bytes:
                raise Violation("C18:tcp-send-bytes", f"[{world}] peer received {len(recv)} bytes that differ from the 2-byte length prefix + wire ({len(expected_bytes)} bytes); accept pattern {case['tx_accept'][:10]}")
        else:
            if got != ("exc", "Timeout"):
                raise Violation("C18:tcp-send", f"[{world}] send_tcp -> {got}, expected Timeout (write blocked until the deadline)")
            if world in ("sync", "trio") and recv != expected_bytes[: len(recv)]:
                raise Violation("C18:tcp-send-bytes", f"[{world}] peer received bytes that are not a prefix of the framed message")
        log.add(world, got)
        res.sim_seconds += VT.elapsed()
    if 0 in case["tx_accept"]:
        res.probes.inc("tcp_would_block_on_send")
        res.faults.inc("tcp_send_would_block", case["tx_accept"].count(0))
    if any(0 < k < len(expected_bytes) for k in case["tx_accept"]):
        res.probes.inc("tcp_short_write")
        res.faults.inc("tcp_short_write")
    res.nontrivial = bool(case["tx_accept"])
    res.state("tcp_send", want, tuple(min(k, 3) for k in case["tx_accept"][:6]))


def _reply_stream(case, q):
    kind = case["reply"]
    g = genuine_wire(q, 7)
    if kind == "genuine":
        w = g
    elif kind == "wrong_id":
        b = bytearray(g)
        b[0] ^= 0x40
        w = bytes(b)
    elif kind == "not_response":
        b = bytearray(g)
        b[2] &= 0x7F
        w = bytes(b)
    elif kind == "garbage":
        w = bytes((i * 37 + 11) % 256 for i in range(40))
    elif kind == "trailing":
        w = g + b"\x00\x01"
    elif kind == "tc_trailing":
        w = genuine_wire(q, 7, tc=True) + b"\x00\x01"
    else:
        w = g
    stream = len(w).to_bytes(2, "big") + w
    if kind == "eof":
        cut = case["cuts"][0] % len(stream) if case["cuts"] else 1
        rx = _chunks(stream[:cut], case["cuts"], case["gaps"], False)
        rx.append((round((rx[-1][0] if rx else 0) + 0.0003, 6), "EOF"))
    elif kind == "stall":
        cut = case["cuts"][0] % len(stream) if case["cuts"] else 1
        rx = _chunks(stream[:cut], case["cuts"], case["gaps"], False)
    else:
        rx = _chunks(stream, case["cuts"], case["gaps"], False)
    return w, rx


def expect_tcp_full(case, q, w, rx, t_start=0.0):
    """Outcome of dns.query.tcp for the scripted peer (time budget shared by all phases)."""
    dns = _d
    T = case["timeout"]
    c = case["connect"]
    t = t_start
    if c[0] == "hang":
        return ("exc", {"Timeout"})
    t += c[1] if len(c) > 1 else 0.0
    if t >= T:
        return ("exc", {"Timeout"})
    if c[0] == "refused":
        return ("exc", {"ConnectionRefusedError"})
    # sending
    qlen = len(q.to_wire()) + 2
    sent = 0
    i = 0
    acc = case["tx_accept"]
    while sent < qlen:
        if i < len(acc):
            k = acc[i]
            i += 1
            if k == 0:
                t += case["tx_gap"]
                if t >= T:
                    return ("exc", {"Timeout"})
                continue
            sent += min(k, qlen - sent)
        else:
            sent = qlen
    # the reply is scheduled relative to the first accepted byte; conservatively relative to now
    kind = case["reply"]
    last = None
    for d, ch in rx:
        last = (d, ch)
    return ("reply", kind)


def _run_tcp_full_world(world, case, q, udp_mats=None):
    dns = _d
    import dns.asyncbackend

    q_expected = q
    if case.get("stale_render"):
        # the caller's query object was rendered before (an earlier attempt under another id) and then
        # changed: what goes on the wire must be the query as it is now
        q = make_query(case)
        q.id = (q_expected.id + 0x0101) % 65536
        q.to_wire()
        q.id = q_expected.id

    net = netsim.reset_network()
    VT.reset(9000.0)
    where, af = DESTS[case["dest"]]
    w, rx = _reply_stream(case, q_expected)
    c = case["connect"]
    script = TcpScript(connect=tuple(c), rx=rx, tx_accept=case["tx_accept"], tx_gap=case["tx_gap"], max_recv=case["max_recv"], rx_after_request=True)
    net.tcp_scripts["*"] = script
    if udp_mats is not None:
        net.udp_scripts["*"] = UdpScript(udp_mats)
    backend = _backend(world)
    if world == "sync":
        try:
            if udp_mats is None:
                r = dns.query.tcp(q, where, timeout=case["timeout"], ignore_trailing=case["ignore_trailing"])
                out = ("ok", r, None)
            else:
                r, used = dns.query.udp_with_fallback(q, where, timeout=case["timeout"], ignore_trailing=case["ignore_trailing"], ignore_errors=True, ignore_unexpected=True)
                out = ("ok", r, used)
        except SimDeadlock:
            out = ("hang",)
        except SimBusyWait:
            raise
        except Exception as e:  # noqa: BLE001
            out = ("exc", type(e).__name__)
    else:

        async def go():
            if udp_mats is None:
                return await dns.asyncquery.tcp(q, where, timeout=case["timeout"], ignore_trailing=case["ignore_trailing"], backend=backend), None
            return await dns.asyncquery.udp_with_fallback(q, where, timeout=case["timeout"], ignore_trailing=case["ignore_trailing"], ignore_errors=True, ignore_unexpected=True, backend=backend)

        r, exc = _arun(world)(go, net)
        if exc is None:
            out = ("ok", r[0], r[1])
        elif isinstance(exc, SimDeadlock):
            out = ("hang",)
        else:
            out = ("exc", _ename(world, exc))
    return out, script, w, VT.elapsed()


def _run_tcp_full(case, res, log):
    dns = _d
    q = make_query(case)
    qwire = q.to_wire()
    q_raw = raw_parse(qwire)
    udp_mats = None
    fallback = case["kind"] == "fallback"
    expect_tcp_used = True
    if fallback:
        src = _src(case["dest"], 53)
        uf = case["udp_first"]
        if uf == "tc_genuine":
            udp_mats = [(0.01, genuine_wire(q, 1, tc=True), src)]
        elif uf == "genuine":
            udp_mats = [(0.01, genuine_wire(q, 1), src)]
            expect_tcp_used = False
        elif uf == "tc_forged_then_tc":
            b = bytearray(genuine_wire(q, 2, tc=True))
            b[1] ^= 1
            udp_mats = [(0.01, bytes(b), src), (0.02, genuine_wire(q, 1, tc=True), src)]
        else:
            udp_mats = []
            expect_tcp_used = None  # UDP times out
    outs = {}
    for world in WORLDS:
        if case.get("world") not in (None, world):
            continue
        out, script, w, elapsed = _run_tcp_full_world(world, case, q, udp_mats)
        tag = f"[{world}] {'udp_with_fallback' if fallback else 'tcp'} connect={case['connect']} reply={case['reply']}"
        res.sim_seconds += elapsed
        if fallback and expect_tcp_used is None:
            if out != ("exc", "Timeout"):
                raise Violation("C18:wrong-exception", f"{tag}: UDP got no reply; expected Timeout, got {out[:2]}")
            outs[world] = ("exc", "Timeout")
            continue
        if fallback and expect_tcp_used is False:
            if out[0] != "ok" or out[2] is not False or bytes(script.received):
                raise Violation("C18:fallback", f"{tag}: a complete UDP reply must be returned without using TCP; got {out[0]} used_tcp={out[2] if out[0]=='ok' else None}")
            outs[world] = ("ok", "udp")
            continue
        # TCP was (or must have been) used
        if out[0] == "ok":
            r = out[1]
            if fallback and out[2] is not True:
                raise Violation("C18:fallback", f"{tag}: truncated UDP reply but the returned message did not come over TCP")
            if getattr(r, "errors", None):
                raise Violation("C18:returned-with-parse-errors", f"{tag}: returned a message with recorded parse errors")
            try:
                cand = dns.message.from_wire(w, ignore_trailing=case["ignore_trailing"])
            except Exception:  # noqa: BLE001
                cand = None
            if cand is None or cand != r or cand.answer != r.answer:
                raise Violation("C18:returned-not-delivered", f"{tag}: returned message is not the framed reply")
            if not is_response_raw(q_raw, raw_parse(w)):
                raise Violation("C18:returned-not-genuine", f"{tag}: returned a reply that is not a response to the query")
            we = walk_end(w)
            if we is None or (we < len(w) and not case["ignore_trailing"]):
                raise Violation("C18:returned-malformed", f"{tag}: returned a framed reply whose records do not end exactly at the end of the frame")
            if bytes(script.received) != len(qwire).to_bytes(2, "big") + qwire:
                raise Violation("C18:tcp-send-bytes", f"{tag}: peer did not receive exactly the framed query")
            if elapsed > case["timeout"] * (2 if fallback else 1) + 1e-6:
                raise Violation("C18:returned-after-deadline", f"{tag}: returned after {elapsed}s")
            if case["reply"] not in ("genuine",) and not (case["reply"] in ("trailing", "tc_trailing") and case["ignore_trailing"]):
                raise Violation("C18:returned-not-genuine", f"{tag}: a {case['reply']} reply was returned")
            if case["connect"][0] != "ok":
                raise Violation("C18:returned-not-delivered", f"{tag}: returned a message although the connection was never established")
            outs[world] = ("ok", "tcp")
        elif out[0] == "hang":
            raise Violation("C18:hang", f"{tag}: waits forever although a timeout was given")
        else:
            name = out[1]
            c = case["connect"]
            allowed = set()
            if c[0] == "hang":
                allowed = {"Timeout"}
            elif c[0] == "refused":
                allowed = {"ConnectionRefusedError", "Timeout"} if c[1] >= case["timeout"] else {"ConnectionRefusedError"}
            else:
                kind = case["reply"]
                allowed = {"Timeout"}  # budget may run out during connect/send/receive gaps
                if kind == "eof":
                    allowed |= {"EOFError"}
                elif kind == "stall":
                    pass
                elif kind in ("wrong_id", "not_response"):
                    allowed |= {"BadResponse"}
                elif kind == "garbage":
                    try:
                        dns.message.from_wire(w)
                    except Exception as e:  # noqa: BLE001
                        allowed |= {type(e).__name__}
                elif kind in ("trailing", "tc_trailing") and not case["ignore_trailing"]:
                    allowed |= {"TrailingJunk"}
            if name not in allowed:
                raise Violation("C18:wrong-exception", f"{tag}: raised {name}, acceptable {sorted(allowed)}")
            if name == "Timeout":
                # a Timeout is only legitimate if the time budget was really exhausted
                budget = case["timeout"]
                if abs(elapsed - budget) > 1e-6 and not (fallback and abs(elapsed - budget - 0.01) < 0.02):
                    raise Violation("C18:timeout-time", f"{tag}: Timeout after {elapsed}s with timeout {budget}s")
            outs[world] = ("exc", name)
        log.add(world, outs[world])
    _worlds_agree(outs, f"{'fallback' if fallback else 'tcp'} (connect={case['connect']} reply={case['reply']})")
    if case["connect"][0] == "refused":
        res.probes.inc("tcp_connect_refused")
        res.faults.inc("tcp_connect_refused")
    if fallback and any(v == ("ok", "tcp") for v in outs.values()):
        res.probes.inc("fallback_used_tcp")
    res.faults.inc("tcp_fragment", len(case["cuts"]))
    res.nontrivial = True
    res.state(case["kind"], case["connect"][0], case["reply"], tuple(sorted(set(outs.values()))))


def _run_tick(case, res, log):
    """The clock ticks at every read (simulated CPU cost), so a datagram / fragment consumed just
    before the deadline leaves the next wait with zero time left.  Nothing may be returned after
    the deadline and the wait must end with Timeout at (about) the deadline."""
    dns = _d
    import dns.asyncbackend

    q = make_query(case)
    qwire = q.to_wire()
    T = case["timeout"]
    src = ("10.0.0.1", 53)
    outs = {}
    for world in WORLDS:
        if case.get("world") not in (None, world):
            continue
        net = netsim.reset_network()
        VT.reset(7000.0)
        junk = bytes((i * 7 + 3) % 256 for i in range(64))
        if case["transport"] == "udp":
            skip = build_datagram(q, qwire, case["skip_kind"], 17, 1, junk)
            net.udp_scripts["*"] = UdpScript([(T - case["before"], skip, src), (T + case["late"], genuine_wire(q, 2), src)])
        else:
            g = genuine_wire(q, 2)
            frame = len(g).to_bytes(2, "big") + g
            net.tcp_scripts["*"] = TcpScript(connect=("ok", 0.0), rx=[(0.001, frame[:1]), (T - case["before"], frame[1:9]), (T + case["late"], frame[9:])], rx_after_request=True)
        backend = _backend(world)
        VT.tick = case["tick"]
        try:
            try:
                if world == "sync":
                    if case["transport"] == "udp":
                        r = dns.query.udp(q, "10.0.0.1", timeout=T, ignore_errors=True, ignore_unexpected=True)
                    else:
                        r = dns.query.tcp(q, "10.0.0.1", timeout=T)
                    out = ("ok",)
                else:

                    async def go():
                        if case["transport"] == "udp":
                            return await dns.asyncquery.udp(q, "10.0.0.1", timeout=T, ignore_errors=True, ignore_unexpected=True, backend=backend)
                        return await dns.asyncquery.tcp(q, "10.0.0.1", timeout=T, backend=backend)

                    r, exc = _arun(world)(go, net)
                    if exc is not None:
                        raise exc
                    out = ("ok",)
            except SimDeadlock:
                out = ("hang",)
            except SimBusyWait:
                raise
            except Exception as e:  # noqa: BLE001
                out = ("exc", type(e).__name__)
        finally:
            VT.tick = 0.0
        elapsed = VT.elapsed()
        tag = f"[{world}] {case['transport']} with a ticking clock (tick {case['tick']}): skippable data {case['before']}s before the {T}s deadline, the rest {case['late']}s after it"
        if out[0] == "ok":
            raise Violation("C18:returned-after-deadline", f"{tag}: a message completed after the deadline was returned (after {elapsed:.4f}s)")
        if out[0] == "hang":
            raise Violation("C18:hang", f"{tag}: waits without bound once the remaining time is zero")
        if out[1] != "Timeout":
            raise Violation("C18:wrong-exception", f"{tag}: {out[1]} instead of Timeout")
        if elapsed > T + 0.01:
            raise Violation("C18:timeout-time", f"{tag}: Timeout only after {elapsed:.4f}s")
        outs[world] = out
        log.add(world, out)
        res.sim_seconds += elapsed
    res.probes.inc("wait_started_with_zero_time_left")
    res.faults.inc("clock_tick_cpu_cost")
    res.nontrivial = True
    res.state("tick", case["transport"])


def run_case(case, keep_log=False):
    res = RunResult()
    log = EventLog(keep=keep_log)
    t0 = dict(netsim.TRIO_STATS) if netsim.have_trio() else None
    try:
        return _run_case(case, keep_log, res, log)
    finally:
        if t0 is not None:
            if netsim.TRIO_STATS["runs"] > t0["runs"]:
                res.probes.inc("trio_backend_exchange", netsim.TRIO_STATS["runs"] - t0["runs"])
            if netsim.TRIO_STATS["jumps"] > t0["jumps"]:
                res.faults.inc("trio_clock_jump_to_deadline", netsim.TRIO_STATS["jumps"] - t0["jumps"])


def _run_case(case, keep_log, res, log):
    try:
        k = case["kind"]
        # the digest identifies the script, not only its outcome
        log.add("case", k, case["timeout"], case.get("dest"), sorted((case.get("opts") or {}).items()),
                [(d["k"], d["t"]) for d in case.get("deliveries", [])], case.get("cuts"), case.get("end"), case.get("end_pos"),
                case.get("max_recv"), case.get("tx_accept"), case.get("connect"), case.get("reply"), case.get("udp_first"), case.get("nmsg"))
        if k == "udp":
            _run_udp(case, res, log)
        elif k == "tick":
            _run_tick(case, res, log)
        elif k == "tcp_recv":
            _run_tcp_recv(case, res, log)
        elif k == "tcp_send":
            _run_tcp_send(case, res, log)
        else:
            _run_tcp_full(case, res, log)
    except Violation as v:
        res.violation = (v.cls, v.detail)
    except SimBusyWait as e:
        res.violation = ("C18:busy-wait", f"{case['kind']}: {e}")
    res.digest = log.digest()
    if keep_log:
        res.extra["log"] = log.lines
    return res


def shrink(case):
    if case.get("world") is None:
        for w in WORLDS:
            c = copy.deepcopy(case)
            c["world"] = w
            yield c
    if case["kind"] == "tick":
        return
    if case["kind"] == "udp":
        d = case["deliveries"]
        for i in range(len(d)):
            c = copy.deepcopy(case)
            del c["deliveries"][i]
            yield c
        for k, v in case["opts"].items():
            if v:
                c = copy.deepcopy(case)
                c["opts"][k] = False
                yield c
        if case["dest"] != "v4":
            c = copy.deepcopy(case)
            c["dest"] = "v4"
            yield c
    else:
        for key in ("cuts", "max_recv", "tx_accept"):
            lst = case.get(key)
            if lst:
                for i in range(len(lst)):
                    c = copy.deepcopy(case)
                    del c[key][i]
                    yield c
                c = copy.deepcopy(case)
                c[key] = []
                yield c
        if case.get("nmsg", 1) > 1:
            c = copy.deepcopy(case)
            c["nmsg"] -= 1
            yield c
        if case.get("gaps") and any(case["gaps"]):
            c = copy.deepcopy(case)
            c["gaps"] = [0.0]
            yield c
        for key in ("all_single", "zero_frame", "ignore_trailing"):
            if case.get(key):
                c = copy.deepcopy(case)
                c[key] = False
                yield c


def known_match(finding, case, violation):
    return False
