"""C10 -- zone transactions match a reference model and are all-or-nothing.

Engine: zonesim (operation-level histories with injected abort points).  The same
history is executed on plain, versioned and B-tree zones, relativized and not; each
must agree with the reference model operation by operation; an exception injected
after every operation index (enumerated, not sampled), hook faults raised inside an
operation, legitimate operation errors, explicit rollback and commit are the
"crash points"; after each of them the zone must equal its pre-transaction snapshot.
"""

import copy

from simkit.core import EventLog, RunResult, Violation, sub_rng
from simkit.refzone import ModelError
from checks import zonesim as Z

PROP = "C10"
ENGINE = "zonesim"
HANG_WATCHDOG = True  # (sequential engine: a run that does not come back is a violation, see simkit.runner.run_guarded)
LEVEL = "exploration"
TIERS = {
    "quick": {"runs": 7000, "budget_s": 75},
    "thorough": {"runs": 400000, "budget_s": 1500},
}
DET_EVERY = 40
RULE = (
    "one run = one seeded history (initial load + 1-4 transactions of 0-10 operations in every argument form) "
    "executed on all six configurations {plain, versioned, btree} x {relativized, absolute} against the reference "
    "model after every operation; each write transaction is additionally re-run with an exception injected after "
    "operation k for every k in 0..n (exhaustive per history) plus seeded hook faults; non-trivial = at least one "
    "abort point or hook fault fired and at least one operation changed content; distinct = distinct event-log digests"
)
STATE_MEASURE = "distinct reference-model content hashes reached after an operation"
COMPONENTS_REAL = [
    "dns.transaction.Transaction (add/replace/delete/delete_exact/update_serial/get/name_exists/changed/iterate_*/commit/rollback/context manager/check_* hooks)",
    "dns.zone.Zone/Transaction/Version/WritableVersion/ImmutableVersion",
    "dns.versioned.Zone",
    "dns.btreezone.Zone/WritableVersion/ImmutableVersion + dns.btree",
    "dns.node.Node, dns.rdataset.Rdataset, dns.serial",
]
COMPONENTS_STUB = ["client issuing the history", "injected exceptions (abort points, hook faults)"]
EXPECTED_PROBES = [
    "last_rdataset_removed_via_absolute_name_in_relativized_zone",
    "add_after_delete_same_node",
    "cname_displaced_other_data",
    "other_data_displaced_cname",
    "singleton_replaced",
    "ttl_lowered_by_merge",
    "serial_wrapped",
    "serial_zero_avoided",
    "hook_raised_mid_operation",
    "commit_without_change",
    "legit_error_then_continue",
    "use_after_end_checked",
    "read_only_refused",
    "initial_load_origin_from_text",
    "retry_after_failed_commit_refused",
    "plain_zone_holds_an_empty_node",
    "operation_failed_midway_then_retried",
    "older_versions_retained_during_history",
]


def setup():
    Z.setup_dns()
    Z.install_commit_fault()


# ---------------------------------------------------------------------------


def gen_case(seed, tier):
    rng = sub_rng(seed, "workload")
    big = tier == "thorough"
    # swarm: restrict names/types per run so collisions are frequent
    names = rng.sample(Z.NAMES, rng.choice([2, 3, 4, 6]))
    if "@" not in names and rng.random() < 0.7:
        names.append("@")
    types = rng.sample(Z.TYPES, rng.choice([2, 3, 5, len(Z.TYPES)]))
    if rng.random() < 0.5 and "CNAME" not in types:
        types.append("CNAME")
    base = Z.base_load(rng, rng.choice([0, 3, 8]), names, types)
    # bystander names the history does not address: they make the B-tree zone's node map several nodes
    # deep (at branching factor 3), so that the history's own inserts and deletes split, steal and merge
    # next to nodes that an older version or the published zone still shares
    for i in range(rng.choice([0, 0, 9, 22])):
        base.append({"o": "add", "n": f"{'abcdefghijklmnopqrstuvwxyz'[i]}{i:02d}", "nf": "rel", "f": "rdataset", "t": "A", "ttl": 300, "rd": ["10.0.0.1"]})
    txns = []
    for _ in range(rng.choice([1, 2, 2, 3, 4] if big else [1, 2, 2, 3])):
        nops = rng.choice([0, 1, 2, 3, 4, 6, 10] if big else [0, 1, 2, 3, 4, 6])
        ops = [Z.gen_op(rng, names, types) for _ in range(nops)]
        txn = {
            "kind": rng.choice(["w", "w", "w", "w", "repl", "r"]),
            "ops": ops,
            "end": rng.choice(["commit", "with", "with", "rollback"]),
            "hook": None,
        }
        if rng.random() < 0.3 and nops:
            txn["hook"] = {"which": rng.choice(["put", "delrds", "delname"]), "nth": rng.randrange(1, 4)}
        txns.append(txn)
    return {
        "prop": PROP,
        "seed": seed,
        "base": base,
        "txns": txns,
        "configs": "all",
        "aborts": "all",
        "load_replacement": rng.random() < 0.7,
        "base_exc_parity": rng.choice([0, 1]),
        "load_text_no_origin": rng.random() < 0.12,
        "btree_t": rng.choice([3, 3, 4, 127]),
        "alloc_in_op": rng.randrange(12) if rng.random() < 0.5 else None,
        "empty_node": rng.choice([n for n in names if n != "@"] or ["a"]) if rng.random() < 0.25 else None,
        # other holders of the versioned zones while the history runs: more than one retained version
        # (set_max_versions) or a reader opened after the load and kept open to the end
        "retention": rng.choice(["default", "default", "max3", "unlimited", "pinned_reader", "pinned_reader"]),
    }


# ---------------------------------------------------------------------------


class _Ctx:
    def __init__(self, res, log):
        self.res = res
        self.log = log


def _exec_op(ctx, b, txn, m, op, check=True, real_done=None):
    """Run op on real txn and on the model; compare outcome and content.
    Returns True when the op took effect (no exception).  real_done: the real side was executed
    already ("ok" or the exception's class name)."""
    want_exc = None
    m_before = m.copy() if check else None
    try:
        Z.apply_model(b, m, op)
    except ModelError as e:
        want_exc = e.name
        m.content = m_before.content if m_before is not None else m.content
    got_exc = None
    if real_done is not None:
        got_exc = None if real_done == "ok" else real_done
    else:
        try:
            Z.apply_real(b, txn, op)
        except Z.Planned:
            raise
        except Exception as e:  # noqa: BLE001
            got_exc = type(e).__name__
    tag = f"[{b.kind}/{'rel' if b.relativize else 'abs'}] op {Z.describe(op)}"
    if got_exc != want_exc:
        raise Violation(
            "C10:op-outcome",
            f"{tag}: real raised {got_exc}, reference model says {want_exc}",
        )
    if check:
        Z.compare("C10:model-mismatch", b, b.snap_txn(txn), m.snapshot(), f"after {tag}")
    return got_exc is None


def _probes(ctx, b, m_before, m, op, ok):
    res = ctx.res
    if not ok:
        return
    o = op["o"]
    name = b.absname(op.get("n", "@"))
    if name is None:
        return
    before = m_before.content.get(name, {})
    after = m.content.get(name, {})
    if o == "delete" and before and not after and op["nf"] in ("abs", "str_abs") and b.relativize and op["f"] != "name":
        res.probes.inc("last_rdataset_removed_via_absolute_name_in_relativized_zone")
    if o in ("add", "replace"):
        from simkit import refzone as R

        rdtype, covers = Z.split_type(op["t"])
        k = R.kind(int(rdtype), int(covers))
        if k == "cname" and any(R.kind(*x) == "regular" for x in before):
            res.probes.inc("cname_displaced_other_data")
        if k == "regular" and any(R.kind(*x) == "cname" for x in before):
            res.probes.inc("other_data_displaced_cname")
        key = (int(rdtype), int(covers))
        if key in before and key in after:
            if int(rdtype) in R.SINGLETONS and before[key][1] != after[key][1]:
                res.probes.inc("singleton_replaced")
            if o == "add" and after[key][0] < before[key][0]:
                res.probes.inc("ttl_lowered_by_merge")
    if o == "serial":
        res.probes.inc("serial_updated")
        g, _w = Z._soa_serial(b)
        try:
            (r0,) = tuple(before[(6, 0)][1])
            (r1,) = tuple(after[(6, 0)][1])
            s0, s1 = g(r0), g(r1)
            if op["rel"] and s0 + op["v"] >= 2**32:
                res.probes.inc("serial_wrapped")
            if s1 == 1 and ((op["rel"] and (s0 + op["v"]) % 2**32 == 0) or (not op["rel"] and op["v"] % 2**32 == 0)):
                res.probes.inc("serial_zero_avoided")
        except (KeyError, ValueError):
            pass


def _use_after_end(ctx, b, txn):
    import dns.transaction
    import dns.name

    nm = b.name_arg("a", "rel")
    rds = b.rdataset("A", 300, ["10.0.0.1"])
    calls = {
        "get": lambda: txn.get(nm, "A"),
        "add": lambda: txn.add(nm, rds),
        "replace": lambda: txn.replace(nm, rds),
        "delete": lambda: txn.delete(nm),
        "delete_exact": lambda: txn.delete_exact(nm),
        "name_exists": lambda: txn.name_exists(nm),
        "update_serial": lambda: txn.update_serial(1, True, b.name_arg("@", "abs" if not b.relativize else "rel")),
        "changed": lambda: txn.changed(),
        "commit": lambda: txn.commit(),
        "rollback": lambda: txn.rollback(),
        "iterate_rdatasets": lambda: list(txn.iterate_rdatasets()),
        "iterate_names": lambda: list(txn.iterate_names()),
        "__iter__": lambda: list(iter(txn)),
        "get_node": lambda: txn.get_node(nm),
    }
    for name, fn in calls.items():
        try:
            fn()
        except dns.transaction.AlreadyEnded:
            continue
        except Exception as e:  # noqa: BLE001
            raise Violation(
                "C10:use-after-end",
                f"[{b.kind}] {name}() on an ended transaction raised {type(e).__name__} instead of AlreadyEnded",
            )
        raise Violation(
            "C10:use-after-end" + ("-get_node" if name == "get_node" else ""),
            f"[{b.kind}] {name}() on an ended transaction did not raise AlreadyEnded",
        )
    ctx.res.probes.inc("use_after_end_checked")


def _read_only_refuses(ctx, b, r):
    import dns.transaction

    nm = b.name_arg("a", "rel")
    rds = b.rdataset("A", 300, ["10.0.0.9" if False else "10.0.0.1"])
    before = b.snap_txn(r)
    muts = {
        "add": lambda: r.add(nm, rds),
        "replace": lambda: r.replace(nm, rds),
        "delete": lambda: r.delete(nm),
        "delete_exact": lambda: r.delete_exact(nm),
    }
    if r.get(b.name_arg("@", "abs"), "SOA") is not None:
        muts["update_serial"] = lambda: r.update_serial(1, True, b.name_arg("@", "abs" if not b.relativize else "rel"))
    for name, fn in muts.items():
        try:
            fn()
        except dns.transaction.ReadOnly:
            continue
        except Exception as e:  # noqa: BLE001
            raise Violation("C10:read-only", f"[{b.kind}] {name}() on a reader raised {type(e).__name__}, not ReadOnly")
        raise Violation("C10:read-only", f"[{b.kind}] {name}() on a read-only transaction did not raise ReadOnly")
    if r.changed():
        raise Violation("C10:read-only", "reader.changed() is True")
    if b.snap_txn(r) != before:
        raise Violation("C10:read-only", "a refused mutator changed the reader's content")
    ctx.res.probes.inc("read_only_refused")


def _zone_equals(ctx, b, want, what, cls, names=None):
    """Zone content through every public view equals `want` (a model snapshot); `names` is the set
    of owner names the model holds (a name may exist without any rdataset in a plain zone)."""
    if names is not None:
        got_names = frozenset(b.to_abs(n) for n in b.zone.nodes.keys())
        if got_names != frozenset(names):
            extra = sorted(str(n) for n in got_names - frozenset(names))
            missing = sorted(str(n) for n in frozenset(names) - got_names)
            raise Violation(cls, f"[{b.kind}/{'rel' if b.relativize else 'abs'}] {what}: the zone's owner names differ from the model: unexpected {extra}, missing {missing}")
    Z.compare(cls, b, b.snap_nodes(), want, what + " (zone.nodes)")
    Z.compare(cls, b, b.snap_zone_api(), want, what + " (zone.iterate_rdatasets)")
    with b.zone.reader() as r:
        Z.compare(cls, b, b.snap_txn(r), want, what + " (fresh reader)")


def _identity_snapshot(b):
    """Node identities, to show untouched nodes are literally untouched."""
    return {name: id(node) for name, node in b.zone.nodes.items()}


def _versions_state(b):
    z = b.zone
    if b.kind == "plain":
        return None
    return (tuple(v.id for v in z._versions), z._write_txn is None, len(z._readers))


def _install_hook(txn, hook, counter):
    which = hook["which"]

    def fire(*a):
        counter[0] += 1
        if counter[0] == hook["nth"]:
            raise Z.Planned("hook")

    if which == "put":
        txn.check_put_rdataset(fire)
    elif which == "delrds":
        txn.check_delete_rdataset(fire)
    else:
        txn.check_delete_name(fire)


def _attempt_with_node_alloc_failure(ctx, b, txn, work, op, pre):
    """Fault inside an operation: the first node the operation allocates fails (MemoryError out of
    zone.node_factory).  The failed attempt must leave the transaction either as it was or with the
    operation done (never half done), must not touch the published zone, and the same operation, tried
    again, must lead to the state the model predicts.  Returns what _exec_op returns for the operation."""
    cls = type(b.zone)
    orig = cls.__dict__.get("node_factory", None)
    inherited = orig is None
    real_factory = b.zone.node_factory
    fired = [False]

    def failing():
        if not fired[0]:
            fired[0] = True
            raise MemoryError("injected allocation failure creating a node")
        return real_factory()

    cls.node_factory = staticmethod(failing)
    outcome = "ok"
    try:
        try:
            Z.apply_real(b, txn, op)
        except MemoryError:
            outcome = "MemoryError"
        except Z.Planned:
            raise
        except Exception as e:  # noqa: BLE001
            outcome = type(e).__name__
    finally:
        if inherited:
            del cls.node_factory
        else:
            cls.node_factory = orig
    if not fired[0] or outcome != "MemoryError":
        # the operation allocates no node (or failed for its own reasons first): an ordinary operation
        return _exec_op(ctx, b, txn, work, op, real_done=outcome)
    ctx.res.faults.inc("alloc_failure_inside_operation")
    ctx.res.probes.inc("operation_failed_midway_then_retried")
    tag = f"[{b.kind}/{'rel' if b.relativize else 'abs'}] op {Z.describe(op)}"
    # an operation cut short by a fault is either not done or done (the caller cannot know which and tries
    # again): anything in between -- part of its effect -- is a violation
    got = b.snap_txn(txn)
    if got != work.snapshot():
        after = work.copy()
        try:
            Z.apply_model(b, after, op)
        except ModelError:
            after = None
        if after is not None and got == after.snapshot():
            work.content = after.content
            ctx.res.probes.inc("failed_operation_had_taken_full_effect")
        else:
            Z.compare("C10:partial-effect-of-failed-operation", b, got, work.snapshot(), f"{tag}: after the operation failed allocating a node (neither the state before nor the state after the operation)")
    Z.compare("C10:published-before-commit", b, b.snap_nodes(), pre, f"{tag}: published zone after a failed operation inside an open transaction")
    return _exec_op(ctx, b, txn, work, op)


def _run_write_txn(ctx, b, m, t, abort_at=None, hook=None, final=True, base_exc=False, commit_fault=False, alloc_in_op=None):
    """Execute one write transaction.  abort_at=k: raise after k ops inside `with`.
    Returns the model after the transaction (unchanged model if not committed)."""
    res = ctx.res
    z = b.zone
    pre = m.snapshot()
    pre_names = frozenset(m.content.keys())
    pre_ident = _identity_snapshot(b)
    pre_versions = _versions_state(b)
    work = m.copy()
    if t["kind"] == "repl":
        work.content = {}
    committed = False
    txn = z.writer(t["kind"] == "repl")
    counter = [0]
    if hook is not None:
        _install_hook(txn, hook, counter)
    changed_any = False
    mutated_ok = False
    try:
        with txn:
            if t["kind"] == "repl":
                Z.compare("C10:model-mismatch", b, b.snap_txn(txn), frozenset(), "replacement transaction starts empty")
            else:
                Z.compare("C10:model-mismatch", b, b.snap_txn(txn), pre, "transaction start")
            seen_delete = set()
            for k, op in enumerate(t["ops"]):
                if abort_at is not None and k == abort_at:
                    res.faults.inc("exception_after_op_k")
                    if base_exc:
                        res.faults.inc("abort_by_non_Exception_BaseException")
                        raise Z.PlannedBase("abort")
                    raise Z.Planned("abort")
                w_before = work.copy() if final else None
                if alloc_in_op == k:
                    ok = _attempt_with_node_alloc_failure(ctx, b, txn, work, op, pre)
                else:
                    ok = _exec_op(ctx, b, txn, work, op)
                # the published node map is replaced only at commit
                Z.compare("C10:published-before-commit", b, b.snap_nodes(), pre, f"[{b.kind}] published zone while the transaction is open, after {Z.describe(op)}")
                if ok:
                    mutated_ok = True
                    if final:
                        _probes(ctx, b, w_before, work, op, ok)
                        nm = b.absname(op.get("n", "@"))
                        if op["o"] == "delete":
                            seen_delete.add(nm)
                        elif op["o"] in ("add", "replace") and nm in seen_delete:
                            res.probes.inc("add_after_delete_same_node")
                        res.state(Z.stable_hash(work.snapshot()))
                elif final:
                    res.probes.inc("legit_error_then_continue")
                if work.snapshot() != (pre if t["kind"] != "repl" else frozenset()) or frozenset(work.content.keys()) != (pre_names if t["kind"] != "repl" else frozenset()):
                    changed_any = True
                ch = txn.changed()
                if changed_any and not ch:
                    raise Violation("C10:changed-flag", f"[{b.kind}] content differs from the start but changed() is False")
                if not mutated_ok and ch:
                    raise Violation("C10:changed-flag", f"[{b.kind}] changed() is True although no operation succeeded")
                # reads inside the transaction see its own writes (spot checks through get/name_exists)
                got_names = frozenset(b.to_abs(x) for x in txn.iterate_names())
                if got_names != frozenset(work.content.keys()):
                    raise Violation("C10:own-writes", f"[{b.kind}] iterate_names() differs from the model after {Z.describe(op)}: unexpected {sorted(str(x) for x in got_names - frozenset(work.content.keys()))}, missing {sorted(str(x) for x in frozenset(work.content.keys()) - got_names)}")
                nm = b.absname(op.get("n", "@"))
                if nm is not None:
                    narg = b.name_arg(op.get("n", "@"), op.get("nf", "rel"))
                    got = txn.name_exists(narg)
                    if got != work.name_exists(nm):
                        raise Violation("C10:own-writes", f"[{b.kind}] name_exists({op.get('n')}) is {got} after {Z.describe(op)}")
                    # point reads through get()/get_node() agree with the model too
                    nobj = b.name_obj(op.get("n", "@"), op.get("nf", "rel"))
                    node_model = work.content.get(nm, {})
                    probe_types = set(node_model.keys())
                    if "t" in op:
                        rdt, cov = Z.split_type(op["t"])
                        probe_types.add((int(rdt), int(cov)))
                    for (rdt, cov) in probe_types:
                        rds = txn.get(narg, rdt, cov)
                        want = node_model.get((rdt, cov))
                        if want is None:
                            if rds is not None and len(rds) > 0:
                                raise Violation("C10:own-writes", f"[{b.kind}] get({op.get('n')}, {rdt}, {cov}) returns data the model does not have after {Z.describe(op)}")
                        else:
                            if rds is None or rds.ttl != want[0] or set(b.rid(r) for r in rds) != want[1]:
                                raise Violation("C10:own-writes", f"[{b.kind}] get({op.get('n')}, {rdt}, {cov}) disagrees with the model after {Z.describe(op)}")
                    gn = txn.get_node(nobj)
                    if (gn is None) != (nm not in work.content):
                        raise Violation("C10:own-writes", f"[{b.kind}] get_node({op.get('n')}) is {'None' if gn is None else 'a node'} but the model has {len(node_model)} rdatasets there after {Z.describe(op)}")
                    if gn is not None and len(gn.rdatasets) != len(node_model):
                        raise Violation("C10:own-writes", f"[{b.kind}] get_node({op.get('n')}) holds {len(gn.rdatasets)} rdatasets, model {len(node_model)}")
            if abort_at is not None and abort_at >= len(t["ops"]):
                res.faults.inc("exception_after_op_k")
                if base_exc:
                    res.faults.inc("abort_by_non_Exception_BaseException")
                    raise Z.PlannedBase("abort")
                raise Z.Planned("abort")
            if commit_fault and t["end"] != "rollback":
                # the commit itself fails: by the documentation the transaction is then rolled back
                Z.COMMIT_FAULT["armed"] = True
                try:
                    txn.commit()
                    fired = not Z.COMMIT_FAULT["armed"]
                except MemoryError:
                    fired = True
                    res.faults.inc("allocation_failure_inside_commit")
                    commit_failed = True
                else:
                    commit_failed = False
                finally:
                    Z.COMMIT_FAULT["armed"] = False
                if commit_failed:
                    # a transaction whose commit failed has ended (rolled back): trying again must be refused
                    import dns.transaction

                    for again in ("commit", "rollback"):
                        try:
                            getattr(txn, again)()
                        except dns.transaction.AlreadyEnded:
                            continue
                        except Exception as e:  # noqa: BLE001
                            raise Violation("C10:use-after-end", f"[{b.kind}] {again}() after a failed commit raised {type(e).__name__} instead of AlreadyEnded")
                        raise Violation("C10:use-after-end", f"[{b.kind}] {again}() after a failed commit did not raise AlreadyEnded")
                    res.probes.inc("retry_after_failed_commit_refused")
                    raise Z.Planned("commit-failed")
                committed = True  # nothing had to be frozen (no change): an ordinary commit
            elif t["end"] == "rollback":
                res.faults.inc("explicit_rollback")
                txn.rollback()
            elif t["end"] == "commit":
                txn.commit()
                committed = True
            else:
                committed = True  # clean exit of the with block commits
            if committed and t["kind"] == "repl" and not changed_any:
                # a replacement transaction in which nothing was stored is a no-op
                # (the documented commit rule: a transaction that changed nothing
                # publishes nothing); not covered by the property either way
                committed = False
                res.probes.inc("empty_replacement_is_noop")
    except (Z.Planned, Z.PlannedBase) as e:
        committed = False
        if str(e) == "hook":
            res.faults.inc("hook_exception_inside_op")
            res.probes.inc("hook_raised_mid_operation")
    except Violation:
        raise
    except Exception as e:  # noqa: BLE001
        v = Z.first_violation_in_context(e)
        if v is not None:
            raise v
        if Z.raised_in_repo(e):
            raise Violation("C10:unexpected-exception", f"[{b.kind}/{'rel' if b.relativize else 'abs'}] leaving the transaction raised {type(e).__name__}: {e} (txn kind={t['kind']} end={t['end']} abort_at={abort_at} commit_fault={commit_fault})")
        raise
    tag = f"txn kind={t['kind']} end={t['end']} abort_at={abort_at} hook={hook}"
    # the client goes on using (mutating) the rdataset/rrset objects it passed in
    res.faults.inc("client_scribbles_on_passed_in_objects", b.scribble_on_handed_in())
    if not txn._ended:
        raise Violation("C10:not-ended", f"[{b.kind}] transaction not ended after leaving the with block: {tag}")
    if committed:
        _zone_equals(ctx, b, work.snapshot(), "after commit: " + tag, "C10:commit-mismatch", names=work.content.keys())
        if final and work.snapshot() == pre:
            res.probes.inc("commit_without_change")
        result = work
    else:
        _zone_equals(ctx, b, pre, "after rollback/exception: " + tag, "C10:rollback-leak", names=pre_names)
        ident = _identity_snapshot(b)
        if ident != pre_ident:
            raise Violation("C10:rollback-leak", f"[{b.kind}] node objects of the zone were replaced by an aborted transaction: {tag}")
        if _versions_state(b) != pre_versions:
            raise Violation("C10:rollback-leak", f"[{b.kind}] version list / writer state changed by an aborted transaction: {tag}: {pre_versions} -> {_versions_state(b)}")
        result = m
    if b.kind != "plain" and (b.zone._write_txn is not None):
        raise Violation("C10:not-ended", f"[{b.kind}] zone still has an open write transaction: {tag}")
    if final:
        _use_after_end(ctx, b, txn)
    return result


def _run_read_txn(ctx, b, m, t):
    r = b.zone.reader()
    Z.compare("C10:model-mismatch", b, b.snap_txn(r), m.snapshot(), "reader content")
    _read_only_refuses(ctx, b, r)
    for op in t["ops"]:
        # every generated mutator must be refused, whatever its arguments
        import dns.transaction

        try:
            Z.apply_real(b, r, op)
        except dns.transaction.ReadOnly:
            pass
        except (KeyError, ValueError, TypeError):
            # argument errors detected before the read-only check are acceptable
            pass
        else:
            raise Violation("C10:read-only", f"[{b.kind}] {Z.describe(op)} accepted by a read-only transaction")
    Z.compare("C10:read-only", b, b.snap_txn(r), m.snapshot(), "reader content after refused mutators")
    r.rollback()
    _use_after_end(ctx, b, r)


def _run_config(ctx, case, kind, relativize):
    text_ok = all(op["o"] == "add" and op["n"] not in ("OUT", "LONG", "OVER") and op.get("cls", "IN") == "IN" and op["t"] not in ("CNAME", "RRSIG:CNAME") and op["ttl"] < 2**31 for op in case["base"])
    if case.get("load_text_no_origin") and text_ok:
        # the zone object is created without an origin; it is learnt from $ORIGIN in the text
        b, m = Z.load_bench_from_text(kind, relativize, case["base"])
        ctx.res.probes.inc("initial_load_origin_from_text")
    else:
        b = Z.Bench(kind, relativize)
        m = Z.load_bench(b, case["base"], replacement=case.get("load_replacement", True))
    if kind == "plain" and case.get("empty_node"):
        # a plain zone may hold a node without rdatasets (made through its non-transaction API);
        # transactions then see a name that exists and holds nothing
        spec = case["empty_node"]
        b.zone.find_node(b.name_arg(spec, "rel" if relativize else "abs"), create=True)
        if b.absname(spec) not in m.content:
            m.content[b.absname(spec)] = {}
            ctx.res.probes.inc("plain_zone_holds_an_empty_node")
    _zone_equals(ctx, b, m.snapshot(), "after initial load", "C10:commit-mismatch", names=m.content.keys())
    pin = None
    if kind != "plain":
        ret = case.get("retention", "default")
        if ret == "max3":
            b.zone.set_max_versions(3)
        elif ret == "unlimited":
            b.zone.set_max_versions(None)
        elif ret == "pinned_reader":
            pin = b.zone.reader()
        if ret != "default":
            ctx.res.probes.inc("older_versions_retained_during_history")
    try:
        return _run_txns(ctx, case, kind, relativize, b, m)
    finally:
        if pin is not None:
            pin.rollback()


def _run_txns(ctx, case, kind, relativize, b, m):
    for ti, t in enumerate(case["txns"]):
        if t["kind"] == "r":
            _run_read_txn(ctx, b, m, t)
            continue
        n = len(t["ops"])
        aborts = case.get("aborts", "all")
        ks = list(range(n + 1)) if aborts == "all" else [k for k in aborts if k[0] == ti]
        # the exception class alternates: odd abort indices leave the body through a
        # BaseException that is not an Exception (KeyboardInterrupt-like)
        flip = case.get("base_exc_parity", 1)
        if aborts == "all":
            for k in ks:
                _run_write_txn(ctx, b, m, t, abort_at=k, final=False, base_exc=(k % 2 == flip))
        else:
            for _, k in ks:
                _run_write_txn(ctx, b, m, t, abort_at=k, final=False, base_exc=(k % 2 == flip))
        if kind != "plain" and t["end"] != "rollback":
            r = _run_write_txn(ctx, b, m, t, final=False, commit_fault=True)
            if r is not m:
                # the commit had nothing to freeze and went through: undo by reloading is not
                # possible, so carry the committed model forward
                m = r
                continue
        if n and case.get("alloc_in_op") is not None:
            # a node allocation fails inside operation k; the operation is tried again; the body is then
            # left through an exception after the last operation (nothing is committed)
            _run_write_txn(ctx, b, m, t, abort_at=n, final=False, alloc_in_op=case["alloc_in_op"] % n)
        if t.get("hook"):
            # the hook fault run never commits: if the hook does not fire the
            # body is left through an exception after the last operation
            _run_write_txn(ctx, b, m, t, abort_at=n, hook=t["hook"], final=False)
        m = _run_write_txn(ctx, b, m, t, final=True)
        ctx.log.add(kind, relativize, ti, Z.stable_hash(m.snapshot()))
    return m.snapshot()


def run_case(case, keep_log=False):
    res = RunResult()
    log = EventLog(keep=keep_log)
    ctx = _Ctx(res, log)
    configs = Z.CONFIGS if case.get("configs", "all") == "all" else [tuple(c) for c in case["configs"]]
    if Z.set_btree_branching(case.get("btree_t")) < 127:
        res.faults.inc("btree_branching_factor_lowered")
    finals = {}
    try:
        for kind, rel in configs:
            finals[(kind, rel)] = _run_config(ctx, case, kind, rel)
        vals = set(finals.values())
        if len(vals) > 1:
            raise Violation("C10:configs-differ", f"final content differs between configurations: {[(k, Z.stable_hash(v)) for k, v in finals.items()]}")
    except Violation as v:
        res.violation = (v.cls if ":" in v.cls else "C10:" + v.cls, v.detail)
    except (Z.Planned, Z.PlannedBase) as e:
        res.violation = ("C10:planned-exception-leaked", str(e))
    log.add("final", sorted(Z.stable_hash(v) for v in finals.values()))
    res.digest = log.digest()
    res.nontrivial = res.faults.get("exception_after_op_k", 0) > 0 and len(res.states) > 0
    res.steps = sum(len(t["ops"]) for t in case["txns"])
    return res


# ---------------------------------------------------------------------------


def shrink(case):
    # fewer configurations first (a failure usually shows in one)
    if case.get("configs", "all") == "all":
        for c in Z.CONFIGS:
            n = copy.deepcopy(case)
            n["configs"] = [list(c)]
            yield n
    tx = case["txns"]
    for i in range(len(tx)):
        if len(tx) > 1:
            n = copy.deepcopy(case)
            del n["txns"][i]
            if n.get("aborts", "all") != "all":
                n["aborts"] = [[a - (a > i), k] for a, k in n["aborts"] if a != i]
            yield n
    if case.get("empty_node"):
        n = copy.deepcopy(case)
        n["empty_node"] = None
        yield n
    if case.get("aborts", "all") == "all":
        n = copy.deepcopy(case)
        n["aborts"] = []
        yield n
        for i, t in enumerate(tx):
            for k in range(len(t["ops"]) + 1):
                n = copy.deepcopy(case)
                n["aborts"] = [[i, k]]
                yield n
    for i, t in enumerate(tx):
        if t.get("hook"):
            n = copy.deepcopy(case)
            n["txns"][i]["hook"] = None
            yield n
        for j in range(len(t["ops"])):
            n = copy.deepcopy(case)
            del n["txns"][i]["ops"][j]
            if n.get("aborts", "all") != "all":
                n["aborts"] = [[a, k - (1 if (a == i and k > j) else 0)] for a, k in n["aborts"]]
            yield n
    for j in range(len(case["base"]) - 1, 1, -1):
        n = copy.deepcopy(case)
        del n["base"][j]
        yield n
    for i, t in enumerate(tx):
        if t["kind"] != "w" and t["kind"] != "r":
            n = copy.deepcopy(case)
            n["txns"][i]["kind"] = "w"
            yield n
        if t["end"] != "with":
            n = copy.deepcopy(case)
            n["txns"][i]["end"] = "with"
            yield n
        for j, op in enumerate(t["ops"]):
            if op.get("nf") not in (None, "rel"):
                n = copy.deepcopy(case)
                n["txns"][i]["ops"][j]["nf"] = "rel"
                yield n
            if op.get("f") in ("rrset", "rdata") and op["o"] != "delete":
                n = copy.deepcopy(case)
                n["txns"][i]["ops"][j]["f"] = "rdataset"
                yield n
            if op.get("rd") and len(op["rd"]) > 1:
                n = copy.deepcopy(case)
                n["txns"][i]["ops"][j]["rd"] = op["rd"][:1]
                yield n
            if op.get("ttl") not in (None, 300):
                n = copy.deepcopy(case)
                n["txns"][i]["ops"][j]["ttl"] = 300
                yield n


def known_match(finding, case, violation):
    return False
