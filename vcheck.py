#!/venv/bin/python
"""vcheck.py -- single entry point of the deterministic-simulation checks.

  vcheck.py <ID> [--tier quick|thorough] [--repo /repo] [--workers N] [--runs N] [--budget S]
  vcheck.py <ID> --replay <file>
  vcheck.py selftest-determinism [ID ...]
  vcheck.py --version

VERIF_SEED and VERIF_TIER are honoured.  The process re-executes itself with
PYTHONHASHSEED=0 before anything from dnspython is imported.
"""

import argparse
import os
import sys

HERE = os.path.dirname(os.path.abspath(__file__))
CLAIMED = ["C10", "C11", "C12", "C13", "C14", "C16", "C17", "C18", "C19", "C20"]


def main():
    ap = argparse.ArgumentParser()
    ap.add_argument("prop", nargs="?")
    ap.add_argument("rest", nargs="*")
    ap.add_argument("--tier", default=os.environ.get("VERIF_TIER") or "quick")
    ap.add_argument("--repo", default="/repo")
    ap.add_argument("--workers", type=int, default=int(os.environ.get("VERIF_WORKERS") or 0))
    ap.add_argument("--runs", type=int, default=None)
    ap.add_argument("--budget", type=float, default=None)
    ap.add_argument("--start", type=int, default=0)
    ap.add_argument("--replay", default=None)
    ap.add_argument("--hashseed", default="0")
    ap.add_argument("--digests", type=int, default=None)
    ap.add_argument("--reverse", action="store_true")
    ap.add_argument("--version", action="store_true")
    a = ap.parse_args()
    if a.version:
        print("vcheck 1 (deterministic simulation checks for dnspython)")
        return 0
    if os.environ.get("PYTHONHASHSEED") != a.hashseed:
        env = dict(os.environ)
        env["PYTHONHASHSEED"] = a.hashseed
        os.execve(sys.executable, [sys.executable] + sys.argv, env)
    repo = os.path.abspath(a.repo)
    sys.path.insert(0, repo)
    sys.path.insert(0, HERE)
    import dns

    if os.path.dirname(os.path.dirname(os.path.abspath(dns.__file__))) != repo:
        print(f"HARNESS-ERROR dns imported from {dns.__file__}, not from {repo}")
        return 2
    if a.tier not in ("quick", "thorough"):
        a.tier = "quick"
    try:
        seed = int(os.environ.get("VERIF_SEED") or 0)
    except ValueError:
        seed = 0
    workers = a.workers or min(16, os.cpu_count() or 1)
    from simkit import runner
    from simkit.core import HarnessError

    if a.prop == "selftest-determinism":
        from simkit import selftest

        return selftest.main(a.rest or CLAIMED, repo, seed)
    if a.prop is None:
        ap.print_help()
        return 2
    prop = a.prop.upper()
    if a.digests is not None:
        import json

        from simkit import selftest

        print("DIGESTS " + json.dumps(selftest.digests(prop, seed, a.digests, a.reverse, a.start)))
        return 0
    try:
        if a.replay:
            return runner.replay_main(prop, a.replay, repo)
        return runner.check_main(prop, a.tier, seed, repo, workers, a.runs, a.budget, a.start)
    except HarnessError as e:
        print(f"HARNESS-ERROR {e}")
        return 2


if __name__ == "__main__":
    sys.exit(main())
