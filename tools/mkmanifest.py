#!/venv/bin/python
"""Regenerate /verif/MANIFEST.json from the table below and validate it."""

import json
import os
import sys

HERE = os.path.dirname(os.path.dirname(os.path.abspath(__file__)))
PY = "/venv/bin/python"

NA = {
    "C01": "pure codec law over label bytes (name text/wire round trip, length limits, pointer decoding): no schedule, clock, I/O boundary or fault enters, so deterministic simulation has nothing to control",
    "C02": "pure per-type rdata wire codec law over field values: a function of one input, not a simulation target",
    "C03": "message render/parse and compression soundness is a pure function of the message and origin",
    "C04": "a statement about all byte/character strings given to parsers; corrupting wire bytes would be input mutation under another name, not fault injection on a system",
    "C05": "pure rdata text round-trip law over values and style options",
    "C06": "algebraic laws (ordering, hash/eq, successor/predecessor) over pairs/triples of name values",
    "C07": "value semantics and set algebra of single unshared record objects evaluated sequentially; no second holder, clock or fault",
    "C08": "size limit, truncation and padding are a pure function of (message, limit, block size, options)",
    "C09": "zone text write/read equivalence is a pure text transformation; the file API states no behaviour under I/O faults",
    "C15": "key-free DNSSEC computations (canonical forms, digests, NSEC/NSEC3 hashing) are pure computations",
}

# id -> (engine, technique, level category, level text, level note, design ref)
CLAIMED = {
    "C10": (
        "zonesim",
        "deterministic simulation: seeded operation histories on all six zone configurations with an exception injected after every operation index, hook faults inside operations, and a reference zone model checked after every step",
        "exploration",
        "Seeded histories of transactions over every argument form, executed on plain/versioned/B-tree zones x relativize on/off and compared with a small reference model after every operation; for each history every abort index 0..n is enumerated (exception in the with-body), plus hook exceptions raised inside an operation, explicit rollback, legitimate operation errors followed by more operations; after each abort the zone must equal its pre-transaction snapshot (content, node identity, version list). Sampling over histories; exhaustive over abort indices within a history.",
        "Trusted: the reference model simkit/refzone.py (written from the documentation), the op translators in checks/zonesim.py, dns.name/dns.rdata value semantics used as hashable keys.",
        "DESIGN.md 3.1",
    ),
    "C11": (
        "zonesim",
        "deterministic simulation: seeded interleaved histories of reader open/close, commits, rollbacks, policy changes and hostile mutator sweeps against a version-store model, with snapshot equality and structural fingerprints checked after every step",
        "exploration",
        "Seeded multi-client histories (readers opened on latest/id/serial and held across later commits, writers that commit/roll back/raise, set_max_versions/set_pruning_policy changes) on both versioned implementations; after every step the retained ids must equal the retention model and satisfy the model-independent invariants (increasing, contiguous, newest and every pinned version retained), every open reader must still read exactly its version, and a reflective sweep of every public method and in-place operator of every object reachable from a snapshot must leave an identity-level fingerprint of all retained versions unchanged; curated mutators must raise.",
        "Trusted: retention model in checks/c11.py (the documented rule), the reference zone model, the reflective sweep's argument sets (a mutator needing arguments outside them is not exercised). Attribute assignment is checked only on @immutable classes; poking private attributes of plain containers (BTreeDict.root) is not counted as a public mutator.",
        "DESIGN.md 3.2",
    ),
    "C12": (
        "threadsim",
        "deterministic simulation: seeded baton-passing thread scheduler with shimmed threading.Lock/Event and line-level pre-emption; invariants per step + serial-equivalence history check",
        "exploration",
        "Seeded search over thread schedules (random, PCT, starvation and newcomer-biased strategies) of real writer/reader/commit/rollback code with pre-emption at every lock/event operation and every source line of the admission code; oracles: mutual exclusion, real-time FIFO, deadlock/livelock freedom, end-state, reader non-blocking, snapshot atomicity, serial equivalence. A clean batch is sampling evidence over the counted schedules, not a proof.",
        "Trusted: simkit.threadsim scheduler and shim, the workload/oracles in checks/c12.py, CPython line-event granularity (no sub-line races).",
        "DESIGN.md 3.3",
    ),
}

CLAIMED["C20"] = (
    "zonesim",
    "deterministic simulation: seeded transaction histories on dns.btreezone.Zone with abort points and pinned readers; derived state recomputed from content by definition after every operation and commit",
    "exploration",
    "Seeded histories of transactions at, above and below delegation points (nested cuts in both orders, CNAME displacement, whole-node deletes, replacement transactions, rollbacks/exceptions, shuffled initial load, readers pinned across later commits) on relativized and absolute B-tree zones; after every operation (writable version) and every commit (newest and every pinned version) node flags, delegation index and iteration order are recomputed from content alone and compared, and bounds() is compared with a definitional oracle for every name in the zone, RFC 4471 neighbours and ~20 extra query names.",
    "Trusted: the definitional oracle in checks/c20.py (derive/expected_bounds), reference zone model, dns.name ordering and is_subdomain.",
    "DESIGN.md 3.10",
)

CLAIMED["C17"] = (
    "cachesim",
    "deterministic simulation: virtual clock + seeded thread scheduler (shimmed lock, line-level pre-emption inside the cache methods); sequential model per step and Wing-Gong linearizability check of concurrent histories",
    "exploration",
    "Sequential tier: seeded histories of get/put/flush/resize/statistics operations and clock advances (landing exactly on expirations and on the cleaning time) against a sequential model, with ring/dict structure, LRU bound, stale-answer and counter invariants after every step. Concurrent tier: 2-4 real threads under the baton scheduler, pre-empted at every lock operation and every source line of the cache methods; every recorded history (<= 18 operations, invoke/return stamped with the simulator's event sequence) must be linearizable w.r.t. the same model.",
    "Trusted: sequential cache model and Wing-Gong search in checks/c17.py; set_max_size is lazy by design (shrinking is not flagged until the next put); pre-emption granularity is the source line.",
    "DESIGN.md 3.7",
)

CLAIMED["C18"] = (
    "netsim",
    "deterministic simulation: fake sockets through dns.query.socket_factory/_wait_for on a virtual clock and the real asyncio backend on a virtual-time event loop; one seeded fault script (datagram faults, stream fragmentation, short writes, EOF/reset/stall, connect outcomes) drives sync and async; independent acceptance model",
    "exploration",
    "Seeded fault scripts per exchange: UDP datagram sequences from a 26-kind catalogue around the deadline under the full option matrix and four destination kinds; TCP receive under arbitrary fragmentation, capped recv sizes, EOF/reset/stall positions; TCP send under short writes and would-block gaps; full tcp() and udp_with_fallback() exchanges with connect outcomes. Oracles: whatever is returned is the strict parse of a delivered datagram that is a response to the query (own raw header/question reader) from the queried address; first genuine datagram wins / first offender raises as configured; Timeout exactly at the deadline; exact framing; sync == async.",
    "Trusted: simkit.netsim (FakeSocket, pump, VirtualLoop, transports), the raw-byte acceptance model in checks/c18.py; strictness of a datagram is delegated to the real strict parser. _wait_for's selectors body and real kernel socket semantics are not exercised; trio backend not exercised.",
    "DESIGN.md 3.8",
)

CLAIMED["C16"] = (
    "resolvesim",
    "deterministic simulation: real sync and async resolvers on a virtual clock over scripted nameservers (tier A) and over real Do53 nameservers on the simulated network (tier B); reference resolution model + sync==async trace equality + direct invariants",
    "exploration",
    "Tier A: seeded per-server outcome scripts (21 outcome kinds incl. clock jumps) x resolver settings x 1-3 consecutive resolutions sharing a cache, executed by dns.resolver.Resolver, dns.asyncresolver.Resolver (virtual-time asyncio loop) and a reference model written from the documentation; the query sequence with send times and timeouts, the result/exception, the answer rrset, canonical name and expiration, total simulated time and live cache keys must agree. Tier B: real Do53Nameserver over netsim with datagram loss/garbage/spoofing/wrong id, TC->TCP, refused/EOF/garbage TCP, slow and late replies; sync and async traces must be equal, no broken server is asked again, TC is retried over TCP on the same server, the answer is the genuine one.",
    "Trusted: reference model in checks/c16.py (candidate rules, server removal, back-off, lifetime, chaining bound MAX_CHAIN=16, cache keys); 'never asked again' is per candidate name (the server list is rebuilt per candidate by design); rotate is off; DoH/DoT/DoQ nameservers and the trio backend are not exercised.",
    "DESIGN.md 3.6",
)

CLAIMED["C13"] = (
    "xfrsim",
    "deterministic simulation: a scripted primary streams seeded version chains (AXFR, IXFR chains, AXFR-style, up-to-date, UDP) cut into messages with single stream faults, through dns.xfr.Inbound and through dns.query/asyncquery.inbound_xfr over the simulated network (fragmentation, EOF, reset, stall, refused connect, UDP modes); independent XFR interpreter + two-sided atomicity law",
    "exploration",
    "Message tier: every message is rendered and re-parsed by the real codec and fed to dns.xfr.Inbound on all three zone kinds x relativize; an independent naive RFC 5936/1995 interpreter applied to the faulted stream decides applied(content)/rejected; valid streams must converge to the server's target version; rejected streams must raise and leave content and node identities untouched; never (exception and zone changed); no write transaction left open. Network tier: the same streams via inbound_xfr sync and async over netsim with TCP chunking, capped recv, EOF/reset/stall positions, refused connect and UDPMode NEVER/TRY_FIRST/ONLY; sync == async.",
    "Trusted: the reference interpreter ref_xfr in checks/c13.py, the reference zone model, netsim. TSIG-signed transfers are exercised under C14. The receiver stops reading at the final SOA, so data after it in later messages is unobservable.",
    "DESIGN.md 3.4",
)

CLAIMED["C14"] = (
    "netsim",
    "deterministic simulation of a two-party TSIG exchange: the real code against an independent RFC 8945 peer (hmac/hashlib, own wire walker) with skewed clocks, a corrupting channel (single-bit flips, stripped/moved/duplicated TSIG), identity faults and envelope faults; TSIG paths of udp/tcp/inbound_xfr over the simulated network",
    "exploration",
    "Per run: seeded algorithm (all nine incl. truncated variants and HMAC-MD5), key, mixed-case key name, fudge, 48-bit times, original id, other data. The real code's MAC must equal the reference HMAC for requests, responses bound to a request MAC and every envelope of a multi-message stream it signs; reference-signed genuine messages and streams (any subset of intermediates unsigned) must verify iff |skew| <= fudge (BadTime otherwise); no single-bit flip (250 sampled per message in quick, all bits for a share of thorough runs; TSIG RR fixed fields always swept) may verify outside the structurally exempt positions (header id, case bit of letters in the key/algorithm names); identity and structure faults raise the documented classes; dropped/duplicated/reordered/flipped envelopes fail no later than the next signed envelope; tampered replies are never returned by udp/tcp; a signed transfer with an altered or unsigned tail is rejected with the zone untouched.",
    "Trusted: simkit/reftsig.py (independent implementation written from RFC 8945), the exemption computation in checks/c14.py. GSS-TSIG is not covered (needs an external GSSAPI context). Dropping the tail of a stream so that it still ends on a signed envelope is not detectable by TSIG and is not counted.",
    "DESIGN.md 3.5",
)

CLAIMED["C19"] = (
    "btreesim",
    "deterministic simulation of interleaved holders (trees related by clone edges, registered cursors, live iterators) chosen by a seeded scheduler, against a sorted-dict model, a gap-position cursor model, structure invariants and frozen-node fingerprints; no fault kind applies",
    "exploration",
    "Weakest fit of the family (no threads, clock or I/O in the B-tree): claimed because the property is about several holders of shared copy-on-write structure whose operations interleave. Seeded histories of 60-1500 operations over up to 5 trees and 4 cursors for t in {3,4,5,8,64}, in-order optimisation on/off and five key patterns; after every step every tree (not only the one touched) equals its model in lookup/len/order, occupancy bounds, uniform leaf depth and size hold, frozen trees refuse mutation, clones of unfrozen trees are refused, every node reachable from a frozen tree is unchanged by identity, and every cursor/iterator step equals the gap model on the tree's current content.",
    "Trusted: the sorted-dict and gap-cursor models in checks/c19.py. Unregistered cursors used across mutations are outside the documented contract and not exercised; delete_exact with a non-member element may raise instead of returning None (not part of the property).",
    "DESIGN.md 3.9",
)

PENDING_REASON = "check under construction in this session (DESIGN.md section 8 build order); not claimed until its quick command is green on the unchanged tree"
ALL = [f"C{i:02d}" for i in range(1, 21)]


# Additions made while the checks grew (see DESIGN.md 9.5, 9.7): (technique suffix, level-text suffix, note override or None)
ADDED = {
    "C10": (
        "; allocation failure inside an operation (node factory) followed by a retry, commit failure, B-tree branching factor as a per-run knob",
        " Also per history: a node allocation failing inside operation k with the operation retried, a failing commit (the transaction must have ended: a second commit/rollback is refused), client code scribbling on the objects it handed in, a plain zone holding an empty node, owner names at the 255-octet limit; owner-name sets (zone, iterate_names) are compared besides rdatasets and the published node map must not change while a transaction is open.",
        None,
    ),
    "C11": (
        "; threadsim tier (readers vs commits and policy changes); per-version flags/delegation-index fingerprints; B-tree branching factor as a per-run knob",
        " Also: a concurrent tier under the thread scheduler, flags and delegation index of every retained or pinned B-tree version recorded at publication and re-compared after every step (wide cases with 10-24 sibling cuts at branching factor 3), the containers behind nodes and rdatasets as sweep targets, an empty rdataset committed into a share of histories, policies answering with non-bool values, readers closed by leaving `with` through an exception.",
        None,
    ),
    "C12": (
        "; fault kinds: allocation failure or interrupt-like BaseException in version setup and at commit, allocation failure creating a wait event, timed waits that may expire at any moment",
        " Workload also contains: a second unrelated zone used by the same threads, retention policy changes from a thread, readers by id and long-held readers, replacement writers, writers that retry a failed commit and that scribble on the rdatasets they passed in; step invariants: pinned versions stay retained, zone.nodes is the newest version's map whenever the lock is free.",
        None,
    ),
    "C13": (
        "; RFC 1982 boundary serials, SOA-field fault, RRSIG records, B-tree branching factor as a per-run knob",
        " Stream faults include an SOA whose non-serial field differs; version chains may place the server's serial at the RFC 1982 boundaries relative to ours; make_query/extract_serial_from_query round trip; a valid retry after every failed attempt.",
        None,
    ),
    "C14": (
        "; Renderer API signing, key rings in every accepted form (Key, dict of Keys, dict of bare secrets incl. the empty secret, callable, parsed relative to an origin), re-rendering after clock jumps, truncated signed responses",
        " Also: MAC-prefix/extension forgeries, the same message object rendered again after the clock moved beyond the fudge, a signed response overflowing max_size with prefer_truncation, one bare-secret key ring reused for two algorithms (must stay as handed in).",
        None,
    ),
    "C16": (
        "; resolver LRU caches of size 1/2/50 with an eviction model, lookups in class CH, servers on non-default ports, exception content",
        " Also compared: the content of NXDOMAIN/NoNameservers/LifetimeTimeout (names tried, failed attempts), Answer.nameserver/port, cache keys with class; outcome kinds include an exception of no particular family and a per-call lifetime of 0.",
        None,
    ),
    "C17": (
        "; real dns.resolver.Answer objects built from responses (expiration = now + minimum TTL over CNAME chain / SOA), keys re-spelled per call, clock advancing while operations are in flight",
        " Four puts in five store a real Answer built from a response (CNAME TTL below/above the address TTL, negative answer, negative answer at the end of a CNAME chain into another zone) whose expiration must be now + minimum TTL; every call passes a new equal key object in alternating case; the caller scribbles on statistics snapshots.",
        None,
    ),
    "C18": (
        "; independent structural walk of every returned datagram/frame (records inside the message, no trailing octets, 12-bit RCODE from OPT)",
        " Also: two-question queries, frames of 32767-65535 octets, a query object rendered before under another id, TC+trailing octets, extended-RCODE replies without a question, a `tick` clock (CPU cost per clock read) for waits that start at the deadline, IPv6 scope/flow forgeries.",
        "Trusted: simkit.netsim (FakeSocket, pump, VirtualLoop, transports), the raw-byte acceptance model and record walk in checks/c18.py; for damage other than trailing octets / records running past the end the verdict 'malformed' is still the real strict parser's. _wait_for's selectors body and real kernel socket semantics are not exercised; trio backend not exercised.",
    ),
    "C19": (
        "; signed key spaces (a falsy key in inner nodes)",
        " Half of the runs use signed keys so that 0 is not the minimum; dropped tree handles.",
        None,
    ),
    "C20": (
        "; zones of class CH, RRSIG(CNAME)/RRSIG(NS) records, wide sibling cuts at B-tree branching factor 3",
        " Also: zones of class CH, RRSIG(CNAME) (displaces NS like a CNAME) and RRSIG(NS) (makes no cut) records, wide cases with 10-24 sibling cuts, origin learnt from $ORIGIN.",
        None,
    ),
}
for _pid, (_t, _x, _n) in ADDED.items():
    _e = CLAIMED[_pid]
    CLAIMED[_pid] = (_e[0], _e[1] + _t, _e[2], _e[3] + _x, _n if _n is not None else _e[4], _e[5])


def main():
    checks = []
    for pid in ALL:
        if pid in CLAIMED:
            eng, tech, cat, text, note, ref = CLAIMED[pid]
            checks.append(
                {
                    "property_id": pid,
                    "quick_cmd": f"{PY} /verif/vcheck.py {pid} --tier quick",
                    "thorough_cmd": f"{PY} /verif/vcheck.py {pid} --tier thorough",
                    "evidence_file": f"/verif/evidence/{pid}.json",
                    "replay_cmd_template": f"{PY} /verif/vcheck.py {pid} --replay {{path}}",
                    "engine": eng,
                    "level_claimed": {"category": cat, "text": text, "design_ref": ref},
                    "level_note": note,
                    "technique": tech,
                }
            )
    na = []
    for pid in ALL:
        if pid in CLAIMED:
            continue
        na.append({"property_id": pid, "reason": NA.get(pid, PENDING_REASON)})
    engines = {}
    for pid, v in CLAIMED.items():
        engines.setdefault(v[0], []).append(pid)
    man = {
        "version": 1,
        "setup_cmd": f"{PY} /verif/vcheck.py --version",
        "hooks": {
            "guard": "DNSPYTHON_VERIF",
            "enable": "no source hooks are needed: every seam is a module attribute the checks rebind at run time (dns.versioned.threading, dns.resolver.time/threading, dns.query.socket_factory/_wait_for, ...); the guard variable is unused",
            "baseline_off_cmd": "cd /repo && /venv/bin/python -m pytest -ra -q -p no:cacheprovider --timeout=900 --continue-on-collection-errors",
            "source_commits": [],
            "add_only": True,
        },
        "engines": [
            {
                "name": e,
                "path": f"/verif/simkit/{e}.py",
                "serves_properties": sorted(ps),
                "kind_free_text": "deterministic simulation engine (seeded; real library code, simulated scheduler/clock/network)",
            }
            for e, ps in sorted(engines.items())
        ],
        "checks": checks,
        "not_applicable": na,
        "notes": "Deterministic simulation with fault injection. Single entry point /verif/vcheck.py; exit 0 held / 1 VIOLATION / 2 harness error. See DESIGN.md.",
    }
    path = os.path.join(HERE, "MANIFEST.json")
    with open(path, "w") as f:
        json.dump(man, f, indent=1)
    try:
        import jsonschema

        jsonschema.validate(man, json.load(open("/root/.vp/MANIFEST.schema.json")))
        print("MANIFEST valid;", len(checks), "checks,", len(na), "not applicable")
    except ImportError:
        print("jsonschema not available; not validated")
    return 0


if __name__ == "__main__":
    sys.exit(main())
