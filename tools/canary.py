#!/venv/bin/python
"""tools/canary.py -- sensitivity proof: plant a small mutant in a scratch copy of
the tree (under /dev/shm, removed afterwards) and require the property's check
to report a VIOLATION within a small budget.

  canary.py list
  canary.py verify                 (all patterns still apply to the tree)
  canary.py run [ID-or-prefix ...] [--budget S] [--runs N] [--keep]
  canary.py patch <file.diff> <PROP> [--budget S]     (apply a unified diff instead)

Nothing here ever touches /repo.
"""

import argparse
import importlib
import json
import os
import shutil
import subprocess
import sys
import tempfile
import time

HERE = os.path.dirname(os.path.dirname(os.path.abspath(__file__)))
sys.path.insert(0, HERE)


def load_canaries():
    out = []
    d = os.path.join(HERE, "canaries")
    for fn in sorted(os.listdir(d)):
        if fn.endswith(".py") and not fn.startswith("_"):
            m = importlib.import_module("canaries." + fn[:-3])
            out += m.CANARIES
    return out


def make_copy(repo):
    root = tempfile.mkdtemp(prefix="verif-canary-", dir="/dev/shm")
    shutil.copytree(os.path.join(repo, "dns"), os.path.join(root, "dns"))
    return root


def apply_mutant(root, c):
    for ed in c["edits"]:
        p = os.path.join(root, ed["file"])
        s = open(p).read()
        n = s.count(ed["old"])
        if n != ed.get("count", 1):
            raise SystemExit(f"canary {c['id']}: pattern occurs {n} times in {ed['file']}")
        s = s.replace(ed["old"], ed["new"])
        open(p, "w").write(s)


def run_check(root, prop, budget, runs, tier="quick"):
    out = tempfile.mkdtemp(prefix="verif-out-", dir="/dev/shm")
    env = dict(os.environ)
    env["VERIF_OUT"] = out
    cmd = [sys.executable, os.path.join(HERE, "vcheck.py"), prop, "--repo", root, "--tier", tier]
    if budget:
        cmd += ["--budget", str(budget)]
    if runs:
        cmd += ["--runs", str(runs)]
    t0 = time.time()
    p = subprocess.run(cmd, capture_output=True, text=True, env=env, timeout=3600)
    dt = time.time() - t0
    viol = [l for l in p.stdout.splitlines() if l.startswith("VIOLATION")]
    detail = [l.strip() for l in p.stdout.splitlines() if l.strip().startswith("class=")]
    shutil.rmtree(out, ignore_errors=True)
    return p.returncode, viol, detail, dt, p.stdout + p.stderr


def main():
    ap = argparse.ArgumentParser()
    ap.add_argument("cmd")
    ap.add_argument("ids", nargs="*")
    ap.add_argument("--repo", default="/repo")
    ap.add_argument("--budget", type=float, default=None)
    ap.add_argument("--runs", type=int, default=None)
    ap.add_argument("--verbose", action="store_true")
    a = ap.parse_args()
    if a.cmd == "list":
        for c in load_canaries():
            print(c["id"], c["prop"], "-", c["what"])
        return 0
    if a.cmd == "verify":
        # every canary's patterns must still occur in the current tree (they go stale when a fix: commit rewrites the spot)
        bad = 0
        cans = load_canaries()
        for c in cans:
            for ed in c["edits"]:
                n = open(os.path.join(a.repo, ed["file"])).read().count(ed["old"])
                if n != ed.get("count", 1):
                    print(f"STALE {c['id']}: pattern occurs {n} times in {ed['file']}")
                    bad += 1
        print(f"{len(cans)} canaries, {bad} stale edits")
        return 1 if bad else 0
    if a.cmd == "patch":
        diff, prop = a.ids[0], a.ids[1]
        root = make_copy(a.repo)
        try:
            p = subprocess.run(["patch", "-p1", "-d", root, "-i", os.path.abspath(diff)], capture_output=True, text=True)
            if p.returncode != 0:
                print(p.stdout, p.stderr)
                return 2
            rc, viol, detail, dt, out = run_check(root, prop, a.budget, a.runs)
            print(f"patch {diff} on {prop}: rc={rc} {dt:.1f}s", viol[:2], detail[:3])
            if a.verbose:
                print(out)
            return 0 if rc == 1 else 1
        finally:
            shutil.rmtree(root, ignore_errors=True)
    if a.cmd == "run":
        cans = load_canaries()
        if a.ids:
            cans = [c for c in cans if any(c["id"].startswith(i) or c["prop"] == i for i in a.ids)]
        results = []
        missed = 0
        for c in cans:
            root = make_copy(a.repo)
            try:
                apply_mutant(root, c)
                rc, viol, detail, dt, out = run_check(root, c["prop"], a.budget, a.runs)
            finally:
                shutil.rmtree(root, ignore_errors=True)
            caught = rc == 1 and bool(viol)
            if not caught:
                missed += 1
            cls = [d.split()[0] for d in detail]
            print(f"{'CAUGHT' if caught else 'MISSED'} {c['id']} ({c['prop']}) rc={rc} {dt:.1f}s {cls}")
            if a.verbose or not caught:
                print("\n".join(out.splitlines()[-12:]))
            sys.stdout.flush()
            results.append({"id": c["id"], "prop": c["prop"], "what": c["what"], "caught": caught, "classes": cls, "wall_s": round(dt, 1)})
        with open(os.path.join(HERE, "canaries", "last_results.json"), "w") as f:
            json.dump(results, f, indent=1)
        print(f"{len(results) - missed}/{len(results)} canaries caught")
        return 1 if missed else 0
    return 2


if __name__ == "__main__":
    sys.exit(main())
