#!/venv/bin/python
"""tools/seeded.py -- confirm and evaluate the seeded (sub-agent written) mutants.

  seeded.py import <src-dir> <PROP> <name>   copy patch.diff/demo.py/notes.md into /verif/seeded/<PROP>-<name>/
  seeded.py confirm [id ...]                 in a scratch copy: demo passes without / fails with the patch
  seeded.py check [id ...] [--budget S] [--runs N]   run the property's check against a patched scratch copy
  seeded.py tests <id>                       run the repository test suite against the patched copy

Everything happens in copies under /dev/shm; /repo is never touched.  Results go to meta.json.
"""

import argparse
import json
import os
import shutil
import subprocess
import sys
import tempfile
import time

HERE = os.path.dirname(os.path.dirname(os.path.abspath(__file__)))
SEEDED = os.path.join(HERE, "seeded")


def scratch(repo, with_tests=False):
    root = tempfile.mkdtemp(prefix="verif-seeded-", dir="/dev/shm")
    shutil.copytree(os.path.join(repo, "dns"), os.path.join(root, "dns"))
    if with_tests:
        shutil.copytree(os.path.join(repo, "tests"), os.path.join(root, "tests"))
        for f in ("pyproject.toml", "pytest.ini", "setup.cfg", "tox.ini"):
            if os.path.exists(os.path.join(repo, f)):
                shutil.copy(os.path.join(repo, f), root)
    return root


def apply_patch(root, diff):
    p = subprocess.run(["patch", "-p1", "-d", root, "-i", os.path.abspath(diff)], capture_output=True, text=True)
    return p.returncode == 0, p.stdout + p.stderr


def run_demo(root, demo):
    env = dict(os.environ)
    env["PYTHONPATH"] = root
    env["PYTHONHASHSEED"] = "0"
    try:
        p = subprocess.run([sys.executable, os.path.abspath(demo)], cwd=root, env=env, capture_output=True, text=True, timeout=180)
        return p.returncode, (p.stdout + p.stderr)[-600:]
    except subprocess.TimeoutExpired:
        return 124, "timeout"


def load_meta(d):
    p = os.path.join(d, "meta.json")
    if os.path.exists(p):
        return json.load(open(p))
    return {}


def save_meta(d, meta):
    with open(os.path.join(d, "meta.json"), "w") as f:
        json.dump(meta, f, indent=1, sort_keys=True)


def ids(sel):
    all_ids = sorted(x for x in os.listdir(SEEDED) if os.path.isdir(os.path.join(SEEDED, x)))
    if not sel:
        return all_ids
    return [x for x in all_ids if any(x.startswith(s) for s in sel)]


def main():
    ap = argparse.ArgumentParser()
    ap.add_argument("cmd")
    ap.add_argument("args", nargs="*")
    ap.add_argument("--repo", default="/repo")
    ap.add_argument("--budget", type=float, default=70)
    ap.add_argument("--runs", type=int, default=None)
    ap.add_argument("--tier", default="quick")
    a = ap.parse_args()
    if a.cmd == "import":
        src, prop, name = a.args
        d = os.path.join(SEEDED, f"{prop}-{name}")
        os.makedirs(d, exist_ok=True)
        for f in ("patch.diff", "demo.py", "notes.md"):
            if os.path.exists(os.path.join(src, f)):
                shutil.copy(os.path.join(src, f), d)
        meta = load_meta(d)
        meta.update({"property": prop, "id": f"{prop}-{name}", "source": "independent sub-agent given only the property text and a scratch worktree"})
        save_meta(d, meta)
        print("imported", d)
        return 0
    if a.cmd == "confirm":
        rc_all = 0
        for i in ids(a.args):
            d = os.path.join(SEEDED, i)
            meta = load_meta(d)
            root = scratch(a.repo)
            try:
                clean_rc, clean_out = run_demo(root, os.path.join(d, "demo.py"))
                ok, out = apply_patch(root, os.path.join(d, "patch.diff"))
                if not ok:
                    print(i, "PATCH DOES NOT APPLY", out[-300:])
                    meta["confirmed"] = False
                    meta["confirm_note"] = "patch does not apply to the current tree"
                    save_meta(d, meta)
                    rc_all = 1
                    continue
                mut_rc, mut_out = run_demo(root, os.path.join(d, "demo.py"))
            finally:
                shutil.rmtree(root, ignore_errors=True)
            good = clean_rc == 0 and mut_rc != 0
            meta["confirmed"] = good
            meta["demo_clean_rc"] = clean_rc
            meta["demo_mutant_rc"] = mut_rc
            meta["what_was_run"] = "tools/seeded.py confirm: demo.py on a scratch copy of /repo/dns without and with patch.diff"
            save_meta(d, meta)
            print(i, "CONFIRMED" if good else f"NOT CONFIRMED clean_rc={clean_rc} mutant_rc={mut_rc}", "" if good else (clean_out if clean_rc else mut_out)[-300:])
            if not good:
                rc_all = 1
        return rc_all
    if a.cmd == "tests":
        i = ids(a.args)[0]
        d = os.path.join(SEEDED, i)
        root = scratch(a.repo, with_tests=True)
        try:
            ok, out = apply_patch(root, os.path.join(d, "patch.diff"))
            env = dict(os.environ)
            env["PYTHONPATH"] = root
            p = subprocess.run(
                [sys.executable, "-m", "pytest", "-q", "-p", "no:cacheprovider", "--timeout=600", "tests/",
                 "--deselect", "tests/test_name.py::NameTestCase::testFromUnicodeIDNA2008", "--deselect", "tests/test_name.py::NameTestCase::testToUnicode5"],
                cwd=root, env=env, capture_output=True, text=True, timeout=3000,
            )
            tail = p.stdout.strip().splitlines()[-1] if p.stdout.strip() else ""
            meta = load_meta(d)
            meta["suite_passes_with_patch"] = p.returncode == 0
            meta["suite_tail"] = tail
            save_meta(d, meta)
            print(i, "suite rc", p.returncode, tail)
        finally:
            shutil.rmtree(root, ignore_errors=True)
        return 0
    if a.cmd == "check":
        missed = 0
        for i in ids(a.args):
            d = os.path.join(SEEDED, i)
            meta = load_meta(d)
            # (a few mutants sit in code that another property's check exercises: meta "check_with")
            prop = meta.get("check_with") or meta.get("property") or i.split("-")[0]
            root = scratch(a.repo)
            out_dir = tempfile.mkdtemp(prefix="verif-out-", dir="/dev/shm")
            try:
                ok, out = apply_patch(root, os.path.join(d, "patch.diff"))
                if not ok:
                    print(i, "PATCH DOES NOT APPLY")
                    continue
                env = dict(os.environ)
                env["VERIF_OUT"] = out_dir
                cmd = [sys.executable, os.path.join(HERE, "vcheck.py"), prop, "--repo", root, "--tier", a.tier, "--budget", str(a.budget)]
                if a.runs:
                    cmd += ["--runs", str(a.runs)]
                t0 = time.time()
                p = subprocess.run(cmd, capture_output=True, text=True, env=env, timeout=7200)
                dt = time.time() - t0
                viol = [l for l in p.stdout.splitlines() if l.startswith("VIOLATION")]
                classes = [l.strip().split()[0].replace("class=", "") for l in p.stdout.splitlines() if l.strip().startswith("class=")]
                # how many of the runs violated (a mutant hit by one or two runs only is caught by luck)
                hits = runs = None
                try:
                    ev = json.load(open(os.path.join(out_dir, "evidence", f"{prop}.json")))
                    hits = sum(ev["coverage"].get("violation_classes", {}).values())
                    runs = ev["coverage"].get("evaluations")
                except Exception:  # noqa: BLE001
                    pass
            finally:
                shutil.rmtree(root, ignore_errors=True)
                shutil.rmtree(out_dir, ignore_errors=True)
            caught = p.returncode == 1 and bool(viol)
            meta.setdefault("checks", {})[a.tier] = {"caught": caught, "rc": p.returncode, "classes": classes, "wall_s": round(dt, 1), "cmd": " ".join(cmd[1:]), "violating_runs": hits, "runs": runs}
            save_meta(d, meta)
            print(f"{'CAUGHT' if caught else 'MISSED'} {i} rc={p.returncode} {dt:.0f}s hits={hits}/{runs} {classes}")
            if not caught:
                missed += 1
                print("\n".join(p.stdout.splitlines()[-6:])[:1500])
            sys.stdout.flush()
        return 1 if missed else 0
    return 2


if __name__ == "__main__":
    sys.exit(main())
