V = "dns/versioned.py"
Z = "dns/zone.py"
B = "dns/btreezone.py"
R = "dns/rdataset.py"

CANARIES = [
    {
        "id": "C11-least-kept-max",
        "prop": "C11",
        "what": "least_kept computed with max() over reader ids",
        "edits": [{"file": V, "old": "            least_kept = min(\n", "new": "            least_kept = max(\n"}],
    },
    {
        "id": "C11-prune-le",
        "prop": "C11",
        "what": "prune condition <= least_kept (may drop a pinned / the newest version)",
        "edits": [{"file": V, "old": "        while self._versions[0].id < least_kept and self._pruning_policy(", "new": "        while len(self._versions) > 1 and self._versions[0].id <= least_kept and self._pruning_policy("}],
    },
    {
        "id": "C11-reader-not-registered",
        "prop": "C11",
        "what": "reader() does not register the transaction (its version is not pinned)",
        "edits": [{"file": V, "old": "            txn = Transaction(self, False, version)\n            self._readers.add(txn)\n", "new": "            txn = Transaction(self, False, version)\n"},
                  {"file": V, "old": "            self._readers.remove(txn)\n", "new": "            self._readers.discard(txn)\n"}],
    },
    {
        "id": "C11-immutable-version-skips-node-wrap",
        "prop": "C11",
        "what": "ImmutableVersion no longer wraps changed nodes in immutable nodes",
        "edits": [{"file": Z, "old": "            if node:\n                version.nodes[name] = ImmutableVersionedNode(node)\n", "new": "            if node:\n                pass\n"}],
    },
    {
        "id": "C11-immutable-rdataset-add",
        "prop": "C11",
        "what": "ImmutableRdataset loses its add() override and items is a plain dict",
        "edits": [{"file": R, "old": "        self.items = dns.immutable.Dict(rdataset.items)\n\n    def update_ttl(self, ttl):\n        raise TypeError(\"immutable\")\n\n    def add(self, rd, ttl=None):  # pyright: ignore\n        raise TypeError(\"immutable\")\n", "new": "        self.items = dict(rdataset.items)\n\n    def update_ttl(self, ttl):\n        raise TypeError(\"immutable\")\n"}],
    },
    {
        "id": "C11-next-id-no-increment",
        "prop": "C11",
        "what": "_get_next_version_id without + 1",
        "edits": [{"file": V, "old": "            id = self._versions[-1].id + 1\n", "new": "            id = self._versions[-1].id\n"}],
    },
    {
        "id": "C11-reader-by-id-oldest-first-wrong",
        "prop": "C11",
        "what": "reader(serial=) returns the oldest matching version instead of the newest",
        "edits": [{"file": V, "old": "                version = None\n                for v in reversed(self._versions):\n                    n = v.nodes.get(oname)", "new": "                version = None\n                for v in self._versions:\n                    n = v.nodes.get(oname)"}],
    },
    {
        "id": "C11-btree-nodes-not-frozen",
        "prop": "C11",
        "what": "btree ImmutableVersion forgets to freeze the node map",
        "edits": [{"file": B, "old": "        self.nodes.make_immutable()  # type: ignore\n", "new": ""}],
    },
    {
        "id": "C11-btree-delegations-shared",
        "prop": "C11",
        "what": "btree WritableVersion shares the delegation index with the previous version instead of cloning it",
        "edits": [{"file": B, "old": "            self.delegations = Delegations(original=version.delegations)  # type: ignore\n", "new": "            self.delegations = version.delegations  # type: ignore\n            self.delegations._immutable = False\n"}],
    },
    {
        "id": "C11-end-read-no-prune",
        "prop": "C11",
        "what": "closing a reader does not prune",
        "edits": [{"file": V, "old": "            self._readers.remove(txn)\n            self._prune_versions_unlocked()\n", "new": "            self._readers.remove(txn)\n"}],
    },
    {
        "id": "C11-commit-in-place",
        "prop": "C11",
        "what": "versioned commit mutates node objects in place when the node was changed in the previous version too (COW test by id against id-1)",
        "edits": [{"file": Z, "old": "        if node is None or name not in self.changed:", "new": "        if node is None or (name not in self.changed and getattr(node, 'id', 0) != self.id - 1):"}],
    },
]
