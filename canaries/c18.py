Q = "dns/query.py"
A = "dns/asyncquery.py"
M = "dns/message.py"
B = "dns/_asyncio_backend.py"

CANARIES = [
    {"id": "C18-is-response-no-id", "prop": "C18", "what": "is_response no longer compares ids",
     "edits": [{"file": M, "old": "            or self.id != other.id\n", "new": ""}]},
    {"id": "C18-addresses-equal-ignores-port", "prop": "C18", "what": "_addresses_equal ignores the port",
     "edits": [{"file": Q, "old": "    return n1 == n2 and a1[1:] == a2[1:]", "new": "    return n1 == n2"}]},
    {"id": "C18-sync-mismatch-returns", "prop": "C18", "what": "sync receive_udp returns a non-response instead of continuing (ignore_errors)",
     "edits": [{"file": Q, "old": "        if ignore_errors and query is not None and not query.is_response(r):\n            continue\n        if destination:", "new": "        if destination:"}]},
    {"id": "C18-net-read-count", "prop": "C18", "what": "_net_read does not reduce the remaining count (reads beyond the frame)",
     "edits": [{"file": Q, "old": "            count -= len(n)\n            s += n\n", "new": "            s += n\n            if len(s) >= count:\n                break\n"}]},
    {"id": "C18-eof-as-wouldblock", "prop": "C18", "what": "_net_read treats b'' as would-block",
     "edits": [{"file": Q, "old": "            if n == b\"\":\n                raise EOFError(\"EOF\")\n            count -= len(n)", "new": "            if n == b\"\":\n                raise BlockingIOError\n            count -= len(n)"}]},
    {"id": "C18-length-prefix-little-endian", "prop": "C18", "what": "send_tcp writes the length prefix little-endian",
     "edits": [{"file": Q, "old": "        tcpmsg = len(what).to_bytes(2, \"big\") + what\n    sent_time = time.time()\n    _net_write(sock, tcpmsg, expiration)", "new": "        tcpmsg = len(what).to_bytes(2, \"little\") + what\n    sent_time = time.time()\n    _net_write(sock, tcpmsg, expiration)"}]},
    {"id": "C18-net-write-restart", "prop": "C18", "what": "_net_write resends from the start after a short write",
     "edits": [{"file": Q, "old": "            current += sock.send(data[current:])", "new": "            current += sock.send(data)"}]},
    {"id": "C18-async-read-exactly-short", "prop": "C18", "what": "async _read_exactly returns after the first chunk",
     "edits": [{"file": A, "old": "        count = count - len(n)\n        s = s + n\n    return s", "new": "        count = count - len(n)\n        s = s + n\n        break\n    return s"}]},
    {"id": "C18-multicast-any-port", "prop": "C18", "what": "multicast destination accepts any source port",
     "edits": [{"file": Q, "old": "        dns.inet.is_multicast(destination[0]) and from_address[1:] == destination[1:]", "new": "        dns.inet.is_multicast(destination[0])"}]},
    {"id": "C18-tc-forged-raises", "prop": "C18", "what": "a forged TC datagram makes receive_udp raise Truncated under ignore_errors",
     "edits": [{"file": Q, "old": "            if (\n                ignore_errors\n                and query is not None\n                and not query.is_response(e.message())\n            ):\n                continue\n            else:\n                raise", "new": "            raise"}]},
    {"id": "C18-async-unexpected-source-accepted", "prop": "C18", "what": "async receive_udp does not check the source",
     "edits": [{"file": A, "old": "        if not _matches_destination(\n            sock.family, from_address, destination, ignore_unexpected\n        ):\n            continue\n        received_time = time.time()", "new": "        received_time = time.time()"}]},
    {"id": "C18-udp-no-final-check", "prop": "C18", "what": "udp() drops the final is_response check (ignore_errors off)",
     "edits": [{"file": Q, "old": "        if not (ignore_errors or q.is_response(r)):\n            raise BadResponse\n        return r\n    assert (\n        False  # help mypy figure out we can't get here  lgtm[py/unreachable-statement]\n    )\n\n\ndef udp_with_fallback(", "new": "        return r\n    assert (\n        False  # help mypy figure out we can't get here  lgtm[py/unreachable-statement]\n    )\n\n\ndef udp_with_fallback("}]},
    {"id": "C18-tcp-no-response-check", "prop": "C18", "what": "tcp() does not check that the reply answers the query",
     "edits": [{"file": Q, "old": "        r.time = received_time - begin_time\n        if not q.is_response(r):\n            raise BadResponse\n        return r\n    assert (\n        False  # help mypy figure out we can't get here  lgtm[py/unreachable-statement]\n    )\n\n\ndef _tls_handshake", "new": "        r.time = received_time - begin_time\n        return r\n    assert (\n        False  # help mypy figure out we can't get here  lgtm[py/unreachable-statement]\n    )\n\n\ndef _tls_handshake"}]},
    {"id": "C18-question-check-one-way", "prop": "C18", "what": "is_response only checks that our questions are in the reply (extra questions accepted)",
     "edits": [{"file": M, "old": "        for n in other.question:\n            if n not in self.question:\n                return False\n        return True", "new": "        return True"}]},
    {"id": "C18-async-continue-on-error-again", "prop": "C18", "what": "async receive_udp parses with continue_on_error again",
     "edits": [{"file": A, "old": "                raise_on_truncation=raise_on_truncation,\n            )\n        except dns.message.Truncated as e:", "new": "                raise_on_truncation=raise_on_truncation,\n                continue_on_error=ignore_errors,\n            )\n        except dns.message.Truncated as e:"}]},
]
