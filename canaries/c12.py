V = "dns/versioned.py"

CANARIES = [
    {
        "id": "C12-commit-failure-wedges-zone",
        "prop": "C12",
        "what": "a failing commit does not release the write slot (the repaired defect b91aec2)",
        "edits": [{"file": "dns/zone.py", "old": "                self.zone._end_write(self)  # pyright: ignore\n                raise\n", "new": "                raise\n"}],
    },
    {
        "id": "C12-setup-failure-wedges-zone",
        "prop": "C12",
        "what": "a failing deferred version setup does not release the write slot (the repaired defect ebd9a19)",
        "edits": [{"file": V, "old": "            self._end_write(self._write_txn)\n            raise\n", "new": "            raise\n"}],
    },
    {
        "id": "C12-drop-event-test",
        "prop": "C12",
        "what": "writer(): admission no longer requires event == self._write_event (newcomers can take cuts)",
        "edits": [
            {
                "file": V,
                "old": "if self._write_txn is None and event == self._write_event:",
                "new": "if self._write_txn is None:",
            }
        ],
    },
    {
        "id": "C12-lifo-wakeup",
        "prop": "C12",
        "what": "wake the most recent waiter instead of the oldest",
        "edits": [
            {
                "file": V,
                "old": "self._write_event = self._write_waiters.popleft()",
                "new": "self._write_event = self._write_waiters.pop()",
            }
        ],
    },
    {
        "id": "C12-no-wakeup-on-rollback",
        "prop": "C12",
        "what": "_end_write (rollback path) forgets to wake a waiter",
        "edits": [
            {
                "file": V,
                "old": "        with self._version_lock:\n            self._end_write_unlocked(txn)\n",
                "new": "        with self._version_lock:\n            assert self._write_txn == txn\n            self._write_txn = None\n",
            }
        ],
    },
    {
        "id": "C12-stale-token",
        "prop": "C12",
        "what": "the exclusive-right token is not given up after admission",
        "edits": [
            {
                "file": V,
                "old": "                    self._write_event = None\n                    break\n",
                "new": "                    break\n",
            }
        ],
    },
    {
        "id": "C12-publish-outside-lock",
        "prop": "C12",
        "what": "commit publishes zone.nodes before taking the lock",
        "edits": [
            {
                "file": V,
                "old": "        with self._version_lock:\n            self._commit_version_unlocked(txn, version, origin)\n",
                "new": "        self.nodes = version.nodes\n        with self._version_lock:\n            self._commit_version_unlocked(txn, version, origin)\n",
            }
        ],
    },
    {
        "id": "C12-wait-inside-lock",
        "prop": "C12",
        "what": "event.wait() moved inside the with block (deadlock)",
        "edits": [
            {
                "file": V,
                "old": "                self._write_waiters.append(event)\n",
                "new": "                self._write_waiters.append(event)\n                event.wait()\n",
            }
        ],
    },
    {
        "id": "C12-end-write-before-publish",
        "prop": "C12",
        "what": "commit releases the write right (and wakes the next writer) in one lock hold, then publishes the version in a second one",
        "edits": [
            {
                "file": V,
                "old": "        with self._version_lock:\n            self._commit_version_unlocked(txn, version, origin)\n",
                "new": "        with self._version_lock:\n            self._end_write_unlocked(txn)\n        with self._version_lock:\n            self._commit_version_unlocked(None, version, origin)\n",
            }
        ],
    },
    {
        "id": "C12-reader-waits-for-writer",
        "prop": "C12",
        "what": "reader() queues behind an open write transaction",
        "edits": [
            {
                "file": V,
                "old": "        if id is not None and serial is not None:\n            raise ValueError(\"cannot specify both id and serial\")\n        with self._version_lock:\n",
                "new": "        if id is not None and serial is not None:\n            raise ValueError(\"cannot specify both id and serial\")\n        while True:\n            with self._version_lock:\n                if self._write_txn is None:\n                    break\n                ev = threading.Event()\n                self._write_waiters.append(ev)\n            ev.wait()\n            with self._version_lock:\n                self._maybe_wakeup_one_waiter_unlocked()\n        with self._version_lock:\n",
            }
        ],
    },
    {
        "id": "C12-setup-version-before-admission",
        "prop": "C12",
        "what": "the private copy of the node map is taken before the writer is admitted (stale base version => lost update)",
        "edits": [
            {
                "file": V,
                "old": "        event = None\n        while True:\n            with self._version_lock:\n",
                "new": "        event = None\n        early = Transaction(self, replacement, make_immutable=True)\n        early._setup_version()\n        while True:\n            with self._version_lock:\n",
            },
            {
                "file": V,
                "old": "                    self._write_txn = Transaction(\n                        self, replacement, make_immutable=True\n                    )\n",
                "new": "                    self._write_txn = early\n",
            },
            {
                "file": V,
                "old": "            self._write_txn._setup_version()\n",
                "new": "            pass\n",
            },
        ],
    },
    {
        "id": "C12-waiter-queue-shared-between-zones",
        "prop": "C12",
        "what": "the queue of waiting writers is one module-level deque instead of one per zone (a zone wakes another zone's waiter)",
        "edits": [
            {"file": V, "old": "Transaction = dns.zone.Transaction\n", "new": "Transaction = dns.zone.Transaction\n_WAITERS: collections.deque = collections.deque()\n"},
            {"file": V, "old": "        self._write_waiters: collections.deque[threading.Event] = collections.deque()\n", "new": "        self._write_waiters = _WAITERS\n"},
        ],
    },
    {
        "id": "C12-end-read-prunes-below-other-readers",
        "prop": "C12",
        "what": "pruning keeps versions from the NEWEST open reader on (max instead of min): an older open reader's version is dropped",
        "edits": [
            {"file": V, "old": "            least_kept = min(\n", "new": "            least_kept = max(\n"},
        ],
    },
    {
        "id": "C12-policy-change-without-lock",
        "prop": "C12",
        "what": "set_pruning_policy prunes without taking the zone lock (races with a commit's own pruning)",
        "edits": [
            {"file": V, "old": "        with self._version_lock:\n            self._pruning_policy = policy\n            self._prune_versions_unlocked()\n", "new": "        self._pruning_policy = policy\n        self._prune_versions_unlocked()\n"},
        ],
    },
]
