T = "dns/transaction.py"
Z = "dns/zone.py"
V = "dns/versioned.py"
B = "dns/btreezone.py"

CANARIES = [
    {
        "id": "C10-commit-failure-not-rolled-back",
        "prop": "C10",
        "what": "a failing commit (immutable version cannot be built) leaves the write transaction slot occupied",
        "edits": [{"file": Z, "old": "                self.zone._end_write(self)  # pyright: ignore\n                raise\n", "new": "                raise\n"}],
    },
    {
        "id": "C10-exit-commits-on-base-exception",
        "prop": "C10",
        "what": "__exit__ rolls back only for Exception subclasses",
        "edits": [{"file": T, "old": "            if exc_type is None:\n                self.commit()\n            else:\n                self.rollback()", "new": "            if exc_type is None or not issubclass(exc_type, Exception):\n                self.commit()\n            else:\n                self.rollback()"}],
    },
    {
        "id": "C10-delete-node-no-changed",
        "prop": "C10",
        "what": "delete_node forgets to record the name in the changed set (a txn that only deletes names is not committed)",
        "edits": [{"file": Z, "old": "            del self.nodes[name]\n            self.changed.add(name)\n", "new": "            del self.nodes[name]\n"}],
    },
    {
        "id": "C10-add-replaces",
        "prop": "C10",
        "what": "add() no longer merges with the existing rdataset",
        "edits": [{"file": T, "old": "                    rdataset = existing.union(rdataset)\n", "new": "                    pass\n"}],
    },
    {
        "id": "C10-serial-zero",
        "prop": "C10",
        "what": "update_serial may produce serial 0",
        "edits": [{"file": T, "old": "        if serial == 0:\n            serial = 1\n", "new": ""}],
    },
    {
        "id": "C10-exact-inverted",
        "prop": "C10",
        "what": "delete_exact's missing-rdata test inverted",
        "edits": [{"file": T, "old": "                        if intersection != rdataset:", "new": "                        if intersection == rdataset:"}],
    },
    {
        "id": "C10-cow-skipped",
        "prop": "C10",
        "what": "copy-on-write skipped: nodes of the published zone are modified in place (rollback leaks)",
        "edits": [{"file": Z, "old": "        if node is None or name not in self.changed:", "new": "        if node is None:"}],
    },
    {
        "id": "C10-exit-commits-on-exception",
        "prop": "C10",
        "what": "__exit__ commits even when the body raised",
        "edits": [{"file": T, "old": "            if exc_type is None:\n                self.commit()\n            else:\n                self.rollback()", "new": "            self.commit()"}],
    },
    {
        "id": "C10-ttl-max-on-merge",
        "prop": "C10",
        "what": "merge takes the new TTL instead of the minimum",
        "edits": [{"file": "dns/rdataset.py", "old": "        elif ttl < self.ttl:\n            self.ttl = ttl", "new": "        else:\n            self.ttl = ttl"}],
    },
    {
        "id": "C10-btree-delete-keeps-empty-node",
        "prop": "C10",
        "what": "btree zone keeps a node whose last rdataset was deleted",
        "edits": [{"file": B, "old": "        node.delete_rdataset(self.zone.rdclass, rdtype, covers)\n        if len(node) == 0:\n            del self.nodes[name]\n", "new": "        node.delete_rdataset(self.zone.rdclass, rdtype, covers)\n"}],
    },
    {
        "id": "C10-cname-keeps-other-data",
        "prop": "C10",
        "what": "adding a CNAME no longer removes other data",
        "edits": [{"file": "dns/node.py", "old": "                    if NodeKind.classify_rdataset(rds) != NodeKind.REGULAR\n", "new": "                    if True\n"}],
    },
    {
        "id": "C10-ended-flag-not-set-on-rollback",
        "prop": "C10",
        "what": "a rolled-back transaction can be used again",
        "edits": [{"file": T, "old": "        finally:\n            self._ended = True\n", "new": "        finally:\n            self._ended = commit\n"}],
    },
    {
        "id": "C10-serial-int-add",
        "prop": "C10",
        "what": "update_serial uses plain integer addition (no RFC 1982 wrap, no overflow check)",
        "edits": [{"file": T, "old": "            serial = dns.serial.Serial(rdataset[0].serial) + value\n        else:\n            serial = dns.serial.Serial(value)\n        serial = serial.value  # convert back to int\n", "new": "            serial = (rdataset[0].serial + value) % 2**32\n        else:\n            serial = value % 2**32\n"}],
    },
]
