B = "dns/btreezone.py"

CANARIES = [
    {
        "id": "C20-glue-not-cleared-on-ns-delete",
        "prop": "C20",
        "what": "deleting the NS rdataset of a cut does not clear GLUE beneath it",
        "edits": [{"file": B, "old": "            self.delegations.discard(name)  # pyright: ignore\n            self.update_glue_flag(name, False)\n", "new": "            self.delegations.discard(name)  # pyright: ignore\n"}],
    },
    {
        "id": "C20-no-demotion-of-inner-cut",
        "prop": "C20",
        "what": "an inner delegation point stays in the index when an outer cut is created above it",
        "edits": [{"file": B, "old": "                if node.is_delegation():\n                    self.delegations.discard(ename)\n", "new": ""}],
    },
    {
        "id": "C20-no-promotion-of-inner-ns",
        "prop": "C20",
        "what": "removing an outer cut does not promote the NS owners it occluded",
        "edits": [{"file": B, "old": "            elif node.get_rdataset(self.zone.rdclass, dns.rdatatype.NS) is not None:\n", "new": "            elif False:\n"}],
    },
    {
        "id": "C20-bounds-right-not-skipping-glue",
        "prop": "C20",
        "what": "bounds() no longer skips glue on the right",
        "edits": [{"file": B, "old": "            if right is None or not right.value().is_glue():\n                break\n", "new": "            break\n"}],
    },
    {
        "id": "C20-delegations-shared-between-versions",
        "prop": "C20",
        "what": "a new writable version mutates the previous version's delegation index",
        "edits": [{"file": B, "old": "            self.delegations = Delegations(original=version.delegations)  # type: ignore\n", "new": "            self.delegations = version.delegations  # type: ignore\n            self.delegations._immutable = False\n"}],
    },
    {
        "id": "C20-origin-flag-on-any-cow",
        "prop": "C20",
        "what": "ORIGIN flag test uses the wrong relativity (absolute zones never get it)",
        "edits": [{"file": B, "old": "        if self.zone.relativize:\n            return name == dns.name.empty\n        else:\n", "new": "        if True:\n            return name == dns.name.empty\n        else:\n"}],
    },
    {
        "id": "C20-delete-node-keeps-index",
        "prop": "C20",
        "what": "delete_node of a cut leaves the delegation index entry",
        "edits": [{"file": B, "old": "            if node.is_delegation():  # pyright: ignore\n                self.delegations.discard(name)\n", "new": "            if node.is_delegation():  # pyright: ignore\n"}],
    },
    {
        "id": "C20-closest-encloser-left-only",
        "prop": "C20",
        "what": "closest encloser computed from the left neighbour only",
        "edits": [{"file": B, "old": "        common = max(left_comparison[2], right_comparison[2])\n", "new": "        common = left_comparison[2]\n"}],
    },
    {
        "id": "C20-glue-update-skips-changed",
        "prop": "C20",
        "what": "update_glue_flag ignores nodes already changed in this transaction",
        "edits": [{"file": B, "old": "            assert isinstance(node, Node)\n            if is_glue:\n", "new": "            else:\n                continue\n            assert isinstance(node, Node)\n            if is_glue:\n"}],
    },
    {
        "id": "C20-new-node-below-cut-not-glue",
        "prop": "C20",
        "what": "a node created beneath an existing cut does not get GLUE",
        "edits": [{"file": B, "old": "        elif self.delegations.is_glue(name):\n            node.flags |= NodeFlags.GLUE\n        return (node, name)\n", "new": "        return (node, name)\n"}],
    },
    {
        "id": "C20-get-delegation-off-by-one",
        "prop": "C20",
        "what": "get_delegation seeks before the name (misses the cut itself)",
        "edits": [{"file": B, "old": "        cursor = self.cursor()\n        cursor.seek(name, before=False)\n        prev = cursor.prev()\n", "new": "        cursor = self.cursor()\n        cursor.seek(name, before=True)\n        prev = cursor.prev()\n"}],
    },
]
