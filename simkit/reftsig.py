"""simkit.reftsig -- an independent RFC 8945 TSIG signer/verifier (hmac + hashlib + an own
wire walker and name canonicaliser).  Nothing here imports dnspython.

The simulated peer of C14 uses this both to verify what the real code signs and to sign
what the real code must verify.
"""

import hashlib
import hmac
import struct

ALGS = {
    "hmac-md5.sig-alg.reg.int.": (hashlib.md5, None),
    "hmac-sha1.": (hashlib.sha1, None),
    "hmac-sha224.": (hashlib.sha224, None),
    "hmac-sha256.": (hashlib.sha256, None),
    "hmac-sha256-128.": (hashlib.sha256, 16),
    "hmac-sha384.": (hashlib.sha384, None),
    "hmac-sha384-192.": (hashlib.sha384, 24),
    "hmac-sha512.": (hashlib.sha512, None),
    "hmac-sha512-256.": (hashlib.sha512, 32),
}


def name_to_wire(text, canonical=True):
    """'Key.Example.' -> canonical (lower-case, uncompressed) wire form."""
    if text == ".":
        return b"\x00"
    out = b""
    for label in text.rstrip(".").split("."):
        raw = label.encode("ascii")
        if canonical:
            raw = raw.lower()
        out += bytes([len(raw)]) + raw
    return out + b"\x00"


def read_name(wire, pos):
    """Returns (labels as raw bytes list, position after the name in the record)."""
    labels = []
    end = None
    hops = 0
    while True:
        c = wire[pos]
        if c == 0:
            pos += 1
            break
        if c & 0xC0 == 0xC0:
            if end is None:
                end = pos + 2
            pos = ((c & 0x3F) << 8) | wire[pos + 1]
            hops += 1
            if hops > 64:
                raise ValueError("pointer loop")
            continue
        labels.append(bytes(wire[pos + 1 : pos + 1 + c]))
        pos += 1 + c
    return labels, (end if end is not None else pos)


def labels_to_wire(labels, canonical=True):
    out = b""
    for l in labels:
        if canonical:
            l = l.lower()
        out += bytes([len(l)]) + l
    return out + b"\x00"


def walk(wire):
    """Returns list of (section, start, type, class, ttl, rdata_start, rdlen, owner labels) for all RRs,
    and the offset where the records start."""
    ident, flags, qd, an, ns, ar = struct.unpack("!HHHHHH", wire[:12])
    pos = 12
    for _ in range(qd):
        _, pos = read_name(wire, pos)
        pos += 4
    rrs = []
    for section, count in (("an", an), ("ns", ns), ("ar", ar)):
        for _ in range(count):
            start = pos
            labels, pos = read_name(wire, pos)
            t, c, ttl, rdlen = struct.unpack("!HHIH", wire[pos : pos + 10])
            pos += 10
            rrs.append((section, start, t, c, ttl, pos, rdlen, labels))
            pos += rdlen
    return rrs, pos


def split_tsig(wire):
    """Separate a signed message into (message without TSIG and with ARCOUNT-1, tsig fields dict).
    Returns (wire, None) when the last additional record is not a TSIG."""
    rrs, end = walk(wire)
    if not rrs or rrs[-1][2] != 250 or rrs[-1][0] != "ar":
        return wire, None
    section, start, t, c, ttl, rds, rdlen, labels = rrs[-1]
    alg_labels, p = read_name(wire, rds)
    hi, lo, fudge, macsize = struct.unpack("!HIHH", wire[p : p + 10])
    p += 10
    mac = bytes(wire[p : p + macsize])
    p += macsize
    orig_id, error, olen = struct.unpack("!HHH", wire[p : p + 6])
    p += 6
    other = bytes(wire[p : p + olen])
    ar = struct.unpack("!H", wire[10:12])[0]
    stripped = wire[:10] + struct.pack("!H", ar - 1) + wire[12:start]
    return stripped, {
        "name_labels": labels,
        "class": c,
        "ttl": ttl,
        "alg_labels": alg_labels,
        "time": (hi << 32) | lo,
        "fudge": fudge,
        "mac": mac,
        "orig_id": orig_id,
        "error": error,
        "other": other,
        "start": start,
        "rdata_start": rds,
        "rdlen": rdlen,
        "trailing": len(wire) - end,
    }


def _hmac(secret, alg):
    h, trunc = ALGS[alg.lower()]
    return hmac.new(secret, digestmod=h), trunc


def variables(keyname, alg, time, fudge, error, other):
    return (
        name_to_wire(keyname)
        + struct.pack("!H", 255)
        + struct.pack("!I", 0)
        + name_to_wire(alg)
        + struct.pack("!HIH", (time >> 32) & 0xFFFF, time & 0xFFFFFFFF, fudge)
        + struct.pack("!HH", error, len(other))
        + other
    )


def timers(time, fudge):
    return struct.pack("!HIH", (time >> 32) & 0xFFFF, time & 0xFFFFFFFF, fudge)


def mac_single(secret, keyname, alg, msg_wo_tsig, orig_id, time, fudge, error=0, other=b"", request_mac=None):
    """MAC of a request (request_mac None/empty) or of a response bound to request_mac."""
    ctx, trunc = _hmac(secret, alg)
    if request_mac:
        ctx.update(struct.pack("!H", len(request_mac)) + request_mac)
    ctx.update(struct.pack("!H", orig_id) + msg_wo_tsig[2:])
    ctx.update(variables(keyname, alg, time, fudge, error, other))
    d = ctx.digest()
    return d[:trunc] if trunc else d


def mac_subsequent(secret, alg, prior_mac, unsigned_msgs, msg_wo_tsig, orig_id, time, fudge):
    """MAC of the 2nd+ signed envelope of a multi-message response (RFC 8945 5.3.1):
    prior MAC, every message since (unsigned ones verbatim), this message, then timers only."""
    ctx, trunc = _hmac(secret, alg)
    ctx.update(struct.pack("!H", len(prior_mac)) + prior_mac)
    for u in unsigned_msgs:
        ctx.update(u)
    ctx.update(struct.pack("!H", orig_id) + msg_wo_tsig[2:])
    ctx.update(timers(time, fudge))
    d = ctx.digest()
    return d[:trunc] if trunc else d


def tsig_rr(keyname_wire_text, alg, time, fudge, mac, orig_id, error=0, other=b"", preserve_case=True, ttl=0, rdclass=255):
    """The TSIG RR bytes.  The owner/algorithm names are written as given (case preserved)."""
    rdata = (
        name_to_wire(alg, canonical=not preserve_case)
        + struct.pack("!HIH", (time >> 32) & 0xFFFF, time & 0xFFFFFFFF, fudge)
        + struct.pack("!H", len(mac))
        + mac
        + struct.pack("!HHH", orig_id, error, len(other))
        + other
    )
    return name_to_wire(keyname_wire_text, canonical=not preserve_case) + struct.pack("!HHIH", 250, rdclass, ttl, len(rdata)) + rdata


def append_tsig(msg_wo_tsig, rr):
    ar = struct.unpack("!H", msg_wo_tsig[10:12])[0]
    return msg_wo_tsig[:10] + struct.pack("!H", ar + 1) + msg_wo_tsig[12:] + rr


def sign_single(secret, keyname, alg, msg_wo_tsig, time, fudge, request_mac=None, error=0, other=b"", orig_id=None, header_id=None):
    """Returns (signed wire, mac).  header_id != orig_id models a forwarder that rewrote the ID."""
    if orig_id is None:
        orig_id = struct.unpack("!H", msg_wo_tsig[:2])[0]
    mac = mac_single(secret, keyname, alg, msg_wo_tsig, orig_id, time, fudge, error, other, request_mac)
    wire = append_tsig(msg_wo_tsig, tsig_rr(keyname, alg, time, fudge, mac, orig_id, error, other))
    if header_id is not None:
        wire = struct.pack("!H", header_id) + wire[2:]
    return wire, mac


def verify_single(secret, keyname, alg, wire, request_mac=None):
    """Independent verification of a message signed by the code under test.
    Returns (ok, reason, fields)."""
    stripped, f = split_tsig(wire)
    if f is None:
        return False, "no TSIG record last in the additional section", None
    if f["class"] != 255 or f["ttl"] != 0:
        return False, f"TSIG class/ttl {f['class']}/{f['ttl']}", f
    if labels_to_wire(f["name_labels"]) != name_to_wire(keyname):
        return False, "key name differs", f
    if labels_to_wire(f["alg_labels"]) != name_to_wire(alg):
        return False, "algorithm name differs", f
    want = mac_single(secret, keyname, alg, stripped, f["orig_id"], f["time"], f["fudge"], f["error"], f["other"], request_mac)
    if want != f["mac"]:
        return False, f"MAC differs from the RFC 8945 HMAC ({f['mac'].hex()[:16]}.. vs {want.hex()[:16]}..)", f
    return True, "", f
