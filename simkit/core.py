"""simkit.core -- seeds, PRNG sub-streams, event log, violation type.

One integer decides everything: VERIF_SEED -> run_seed(property, tier, index)
-> independent sub-streams by label.  Nothing here reads a real clock or
object address.
"""

import hashlib
import random


def h64(*parts) -> int:
    m = hashlib.sha256()
    for p in parts:
        m.update(str(p).encode())
        m.update(b"\x00")
    return int.from_bytes(m.digest()[:8], "big")


def run_seed(verif_seed: int, prop: str, tier: str, index: int) -> int:
    # the tier is deliberately *not* part of the seed: the thorough tier
    # continues the same seed sequence with more (and larger) runs.
    return h64(verif_seed, prop, index) & 0xFFFFFFFFFFFF


def sub_rng(seed: int, label: str) -> random.Random:
    return random.Random(h64(seed, label))


class Violation(Exception):
    """An oracle failed.  cls is a short stable class string such as
    'C12:fifo-overtake'; detail is free text (never contains addresses)."""

    def __init__(self, cls: str, detail: str = ""):
        super().__init__(f"{cls}: {detail}")
        self.cls = cls
        self.detail = detail


class HarnessError(Exception):
    """The simulator itself is broken (seam bypassed, nondeterminism,...)."""


class EventLog:
    """Append-only log of logical events; the digest is the run's identity."""

    __slots__ = ("lines", "_h", "keep")

    def __init__(self, keep: bool = False):
        self.lines = []
        self._h = hashlib.sha256()
        self.keep = keep

    def add(self, *parts):
        s = " ".join(str(p) for p in parts)
        self._h.update(s.encode())
        self._h.update(b"\n")
        if self.keep:
            self.lines.append(s)

    def digest(self) -> str:
        return self._h.hexdigest()[:24]


class Counter(dict):
    def inc(self, key, n=1):
        self[key] = self.get(key, 0) + n

    def merge(self, other):
        for k, v in other.items():
            self[k] = self.get(k, 0) + v


class RunResult:
    """What one simulated run reports back."""

    __slots__ = (
        "violation",
        "digest",
        "nontrivial",
        "faults",
        "probes",
        "sim_seconds",
        "states",
        "steps",
        "anomaly",
        "trace",
        "extra",
    )

    def __init__(self):
        self.violation = None  # None | (cls, detail)
        self.digest = ""
        self.nontrivial = False
        self.faults = Counter()
        self.probes = Counter()
        self.sim_seconds = 0.0
        self.states = set()  # 64-bit hashes of abstract states reached
        self.steps = 0
        self.anomaly = None
        self.trace = None  # optional: recorded schedule etc. for replay files
        self.extra = {}

    def state(self, *parts):
        if len(self.states) < 4096:
            self.states.add(h64(*parts))
