"""simkit.threadsim -- baton-passing deterministic scheduler for real threads.

Every simulated caller thread is a real thread parked on a private raw lock
(its *baton*).  Exactly one thread ever runs; which one runs next is always a
decision of the Scheduler, taken from a seeded PRNG or from a recorded
schedule.  Pre-emption points are (a) every operation on a shim Lock/Event
(the `threading` name inside the module under test is rebound to
`ThreadingShim`), (b) LINE events of selected code objects (sys.monitoring),
(c) explicit `sched.yield_point("op")` calls of the workload.

The schedule is recorded as the list of decisions that differ from the default
policy "keep running the current thread while it can run, otherwise run the
lowest-numbered runnable thread"; each entry is keyed by (current thread,
number of yield points that thread has passed), which keeps entries meaningful
when other entries are removed during minimisation.
"""

import _thread
import sys
import threading as _real_threading

from .core import Violation

_ACTIVE = None  # the Scheduler of the run in progress in this process


class _Abort(BaseException):
    """Unwinds a parked thread when a run is torn down."""


class Deadlock(Exception):
    pass


class SimThread:
    __slots__ = (
        "idx",
        "fn",
        "baton",
        "thread",
        "done",
        "started",
        "blocked_on",
        "yields",
        "exc",
        "phase",
        "data",
        "prio",
        "frozen",
    )

    def __init__(self, idx, fn):
        self.idx = idx
        self.fn = fn
        self.baton = _thread.allocate_lock()
        self.baton.acquire()
        self.thread = None
        self.done = False
        self.started = False
        self.blocked_on = None
        self.yields = 0
        self.exc = None
        self.phase = "idle"
        self.data = {}
        self.prio = 0.0
        self.frozen = False

    def runnable(self):
        if self.done or self.frozen:
            return False
        b = self.blocked_on
        return b is None or b.ready(self)


class _Cond:
    """A workload-level wait: blocks until pred() is true."""

    def __init__(self, pred, label):
        self.pred = pred
        self.label = label

    def ready(self, t):
        return self.pred()

    def describe(self):
        return f"cond:{self.label}"


class Scheduler:
    def __init__(
        self,
        rng,
        strategy=None,
        schedule=None,
        step_cap=200000,
        on_step=None,
        log=None,
    ):
        self.rng = rng
        self.strategy = dict(strategy or {"kind": "random", "p_sync": 0.5, "p_line": 0.1})
        self.replay = None
        if schedule is not None:
            self.replay = {(c, k): n for c, k, n in schedule}
        self.recorded = []  # [cur_idx, cur_yields, next_idx]
        self.threads = []
        self.current = None
        self.main_baton = _thread.allocate_lock()
        self.main_baton.acquire()
        self.failure = None
        self.aborting = False
        self.steps = 0
        self.switches = 0
        self.step_cap = step_cap
        self.on_step = on_step
        self.on_acquired = None  # callback(thread, lock) right after a shim lock was taken
        self.log = log
        self.counters = {}
        self.last_kind = None
        self.last_woken = None
        self.line_yields = 0
        self.sync_yields = 0
        self.in_cs_preempt = 0
        self.lock_names = {}
        self._pct_points = None

    # ---- construction -------------------------------------------------

    def spawn(self, fn):
        t = SimThread(len(self.threads), fn)
        self.threads.append(t)
        return t

    # ---- decisions ----------------------------------------------------

    def _default_choice(self, cur, runnable):
        if cur is not None and cur in runnable:
            return cur
        return runnable[0]

    def _policy(self, cur, runnable, kind):
        st = self.strategy
        k = st["kind"]
        rng = self.rng
        if k == "pct":
            if self._pct_points is None:
                n = st.get("est_steps", 400)
                self._pct_points = set(
                    rng.randrange(n) for _ in range(st.get("d", 2))
                )
                for t in self.threads:
                    t.prio = rng.random() + 1.0
            if self.steps in self._pct_points and cur is not None:
                cur.prio = rng.random() * 0.5  # drop below all initial prios
            return max(runnable, key=lambda t: (t.prio, -t.idx))
        if k == "starve":
            victim = st.get("victim", 0)
            others = [t for t in runnable if t.idx != victim]
            if others:
                runnable = others
        elif k == "newcomer":
            # right after a wake-up, prefer anybody but the woken thread
            if self.last_kind == "event.set" and self.last_woken is not None:
                others = [t for t in runnable if t.idx != self.last_woken]
                if others and rng.random() < 0.8:
                    return others[rng.randrange(len(others))]
        p = st.get("p_line", 0.1) if kind == "line" else st.get("p_sync", 0.5)
        if cur is not None and cur in runnable and rng.random() >= p:
            return cur
        return runnable[rng.randrange(len(runnable))]

    def _decide(self, cur, kind):
        runnable = [t for t in self.threads if t.runnable()]
        if not runnable:
            return None
        cur_idx = cur.idx if cur is not None else -1
        cur_y = cur.yields if cur is not None else 0
        default = self._default_choice(cur, runnable)
        if self.replay is not None:
            want = self.replay.get((cur_idx, cur_y))
            nxt = default
            if want is not None:
                for t in runnable:
                    if t.idx == want:
                        nxt = t
                        break
        else:
            if len(runnable) == 1:
                nxt = runnable[0]
            else:
                nxt = self._policy(cur, runnable, kind)
        if nxt is not default:
            self.recorded.append([cur_idx, cur_y, nxt.idx])
        return nxt

    # ---- the yield point ------------------------------------------------

    def yield_point(self, kind, info=None):
        """Called by the running sim thread at every pre-emption point."""
        if self.aborting:
            return
        cur = self.current
        if cur is None:
            return
        cur.yields += 1
        self.steps += 1
        if kind == "line":
            self.line_yields += 1
        else:
            self.sync_yields += 1
        if self.on_step is not None:
            try:
                self.on_step(cur, kind, info)
            except Violation as v:
                self._fail(cur, v)
        if self.steps > self.step_cap:
            self._fail(cur, Violation("step-cap", f"more than {self.step_cap} steps"))
        nxt = self._decide(cur, kind)
        self.last_kind = kind
        if nxt is cur or nxt is None:
            return
        self._switch_from(cur, nxt, kind)

    def _switch_from(self, cur, nxt, kind):
        self.switches += 1
        if self.log is not None:
            self.log.add("sw", cur.idx, cur.yields, "->", nxt.idx, kind)
        self.current = nxt
        nxt.baton.release()
        cur.baton.acquire()
        if self.aborting:
            raise _Abort()

    def _fail(self, cur, v):
        if self.failure is None:
            self.failure = v
        self.main_baton.release()
        cur.baton.acquire()
        raise _Abort()

    def block(self, waitable, kind):
        """Park the current thread until waitable.ready(); returns when it is
        this thread's turn again and the condition holds."""
        if self.aborting:
            return
        cur = self.current
        while not waitable.ready(cur):
            cur.blocked_on = waitable
            cur.yields += 1
            self.steps += 1
            if self.log is not None:
                self.log.add("block", cur.idx, kind, self.name_of(waitable))
            if self.on_step is not None:
                try:
                    self.on_step(cur, "block:" + kind, waitable)
                except Violation as v:
                    cur.blocked_on = None
                    self._fail(cur, v)
            nxt = self._decide(cur, kind)
            if nxt is None:
                # nobody can run: deadlock
                cur.blocked_on = None
                self._fail(cur, Deadlock(self.describe_waits(cur, waitable)))
            self._switch_from(cur, nxt, kind)
            cur.blocked_on = None

    def wait_until(self, pred, label="cond"):
        self.block(_Cond(pred, label), "cond")

    def name_of(self, obj):
        if isinstance(obj, _Cond):
            return obj.describe()
        n = self.lock_names.get(id(obj))
        if n is None:
            n = f"{type(obj).__name__}#{len(self.lock_names)}"
            self.lock_names[id(obj)] = n
            # keep the object alive so ids are not reused within a run
            self.counters.setdefault("_keep", []).append(obj)
        return n

    def describe_waits(self, cur=None, waitable=None):
        parts = []
        for t in self.threads:
            if t.done:
                continue
            b = t.blocked_on
            if t is cur:
                b = waitable
            what = self.name_of(b) if b is not None else "runnable?"
            owner = getattr(b, "owner", None)
            if owner is not None:
                what += f"(held by T{owner.idx})"
            parts.append(f"T{t.idx}[{t.phase}] waits {what}")
        return "; ".join(parts)

    # ---- thread bodies --------------------------------------------------

    def _bootstrap(self, t):
        t.baton.acquire()
        t.started = True
        try:
            if not self.aborting:
                t.fn(t)
        except _Abort:
            pass
        except Violation as v:
            if self.failure is None:
                self.failure = v
        except BaseException as e:  # noqa: BLE001 - recorded, not swallowed
            t.exc = e
            if self.failure is None and not self.aborting:
                self.failure = Violation(
                    "thread-exception", f"T{t.idx}: {type(e).__name__}: {e}"
                )
        t.done = True
        if self.aborting:
            return  # main is joining us
        if self.failure is not None:
            self.main_baton.release()
            return
        t.yields += 1
        if self.log is not None:
            self.log.add("done", t.idx)
        nxt = self._decide(t, "done")
        if nxt is None:
            if all(x.done for x in self.threads):
                self.main_baton.release()
            else:
                self.failure = Deadlock(self.describe_waits())
                self.main_baton.release()
            return
        self.switches += 1
        self.current = nxt
        nxt.baton.release()

    def run(self):
        """Run all spawned threads to completion.  Returns None, or the
        failure (Violation / Deadlock) that stopped the run."""
        global _ACTIVE
        assert _ACTIVE is None
        _ACTIVE = self
        try:
            for t in self.threads:
                t.thread = _real_threading.Thread(
                    target=self._bootstrap, args=(t,), daemon=True
                )
                t.thread.start()
            first = self._decide(None, "start")
            if first is None:
                return None
            self.current = first
            first.baton.release()
            self.main_baton.acquire()
            # tear down whatever is left
            self.aborting = True
            self.current = None
            for t in self.threads:
                if not t.done:
                    t.baton.release()
                t.thread.join(120)
                if t.thread.is_alive():
                    raise RuntimeError("sim thread did not unwind")
            return self.failure
        finally:
            _ACTIVE = None


# ---------------------------------------------------------------------------
# Shim `threading` module: Lock and Event owned by the scheduler.


class ShimLock:
    def __init__(self):
        self.held = False
        self.owner = None
        self.acquisitions = 0

    def ready(self, t):
        return not self.held

    def acquire(self, blocking=True, timeout=-1):
        s = _ACTIVE
        if s is None or s.aborting or s.current is None:
            self.held = True
            return True
        s.yield_point("lock.acquire", self)
        if self.held:
            if not blocking:
                return False
            if timeout is not None and timeout >= 0:
                # timed acquire: may time out at any moment (see ShimEvent.wait)
                s.yield_point("lock.acquire.timed", self)
                if self.held:
                    return False
            else:
                s.block(self, "lock")
        if s.aborting:
            return True
        self.held = True
        self.owner = s.current
        self.acquisitions += 1
        if s.on_acquired is not None:
            s.on_acquired(s.current, self)
        return True

    def release(self):
        if not self.held:
            s0 = _ACTIVE
            if s0 is not None and s0.aborting:
                return
            raise RuntimeError("release unlocked lock")
        self.held = False
        owner = self.owner
        self.owner = None
        s = _ACTIVE
        if s is None or s.aborting or s.current is None:
            return
        if owner is not None:
            owner.data["cs_done"] = owner.data.get("cs_done", 0) + 1
        s.yield_point("lock.release", self)

    def locked(self):
        return self.held

    def __enter__(self):
        self.acquire()
        return True

    def __exit__(self, *a):
        self.release()
        return False


EVENT_ALLOC_FAULT = {"n": None, "fired": 0}


class ShimEvent:
    def __init__(self):
        # fault point: creating the n-th Event inside a simulated thread fails (allocation failure)
        if EVENT_ALLOC_FAULT["n"] is not None and _ACTIVE is not None and _ACTIVE.current is not None and not _ACTIVE.aborting:
            EVENT_ALLOC_FAULT["n"] -= 1
            if EVENT_ALLOC_FAULT["n"] <= 0:
                EVENT_ALLOC_FAULT["n"] = None
                EVENT_ALLOC_FAULT["fired"] += 1
                EVENT_ALLOC_FAULT.setdefault("failed_inv", set()).add(_ACTIVE.current.data.get("inv"))
                raise MemoryError("injected allocation failure creating a threading.Event")
        self.flag = False
        self.waiters = []

    def ready(self, t):
        return self.flag

    def is_set(self):
        return self.flag

    def set(self):
        self.flag = True
        s = _ACTIVE
        if s is None or s.aborting or s.current is None:
            return
        s.last_woken = self.waiters[0] if self.waiters else None
        s.yield_point("event.set", self)

    def clear(self):
        self.flag = False

    def wait(self, timeout=None):
        s = _ACTIVE
        if s is None or s.aborting or s.current is None:
            return self.flag
        if timeout is not None:
            # a timed wait: simulated time is not tied to scheduler steps (the thread we wait for may be
            # arbitrarily slow), so the timeout may expire at any moment -- one pre-emption point, then the
            # call returns whatever the flag is by then.  The code under test as shipped never waits with a
            # timeout; this only matters for changed code.
            s.counters["timed_waits"] = s.counters.get("timed_waits", 0) + 1
            s.yield_point("event.wait.timed", self)
            return self.flag
        self.waiters.append(s.current.idx)
        s.yield_point("event.wait", self)
        if not self.flag:
            s.block(self, "event")
        return True


class ThreadingShim:
    """Stand-in for the `threading` module inside a module under test."""

    Lock = ShimLock
    Event = ShimEvent

    def __getattr__(self, name):
        return getattr(_real_threading, name)


SHIM = ThreadingShim()

# ---------------------------------------------------------------------------
# Line-level pre-emption through sys.monitoring (3.12+): LINE events are
# enabled only on the selected code objects, so everything else runs at full
# speed.

_TOOL = 4
_TRACED = set()
_TOOL_READY = False


def _on_line(code, line):
    s = _ACTIVE
    if s is None or s.aborting or s.current is None:
        return None
    s.yield_point("line", (code.co_name, line))
    return None


def enable_line_preemption(funcs):
    """Make every source line of the given functions a pre-emption point."""
    global _TOOL_READY
    mon = sys.monitoring
    if not _TOOL_READY:
        mon.use_tool_id(_TOOL, "verif-threadsim")
        mon.register_callback(_TOOL, mon.events.LINE, _on_line)
        _TOOL_READY = True
    for f in funcs:
        code = getattr(f, "__code__", f)
        if code in _TRACED:
            continue
        mon.set_local_events(_TOOL, code, mon.events.LINE)
        _TRACED.add(code)


def functions_of(cls_or_mod, names=None):
    out = []
    for k, v in vars(cls_or_mod).items():
        if names is not None and k not in names:
            continue
        f = v
        if isinstance(v, (staticmethod, classmethod)):
            f = v.__func__
        if isinstance(v, property):
            f = v.fget
        if hasattr(f, "__code__"):
            out.append(f)
    return out
