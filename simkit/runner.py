"""simkit.runner -- parallel seeded search, minimisation, replay files, evidence.

Exit codes of a check: 0 = property held on everything explored (KNOWN-FINDING
lines allowed), 1 = at least one VIOLATION line, 2 = harness error (never
together with a VIOLATION line).
"""

import concurrent.futures as cf
import copy
import faulthandler
import importlib
import json
import multiprocessing
import os
import subprocess
import sys
import time
import traceback

from .core import Counter, HarnessError, run_seed

VERIF_DIR = os.path.dirname(os.path.dirname(os.path.abspath(__file__)))
OUT_DIR = os.environ.get("VERIF_OUT") or VERIF_DIR
_MOD = None


def load_check(prop):
    return importlib.import_module("checks." + prop.lower())


def _setup(prop):
    global _MOD
    if _MOD is None:
        mod = load_check(prop)
        mod.setup()
        _MOD = mod
    return _MOD


def _compact(obj, limit=1500):
    s = json.dumps(obj, sort_keys=True, default=str)
    if len(s) <= limit:
        return obj
    return {"truncated_json": s[:limit] + "..."}


class RunHang(BaseException):
    """One run of a check did not come back within HANG_S seconds of wall time."""


HANG_S = 120


def run_guarded(mod, case, keep_log=False):
    """mod.run_case under a wall-clock watchdog, for the checks that opt in (HANG_WATCHDOG = True: purely
    sequential engines without simulator threads).  Changed code under test that loops for ever would
    otherwise kill the worker (exit 2, everything else it found is lost); with the watchdog the run ends
    as a violation of class <PROP>:hang, which replays the same way."""
    import signal

    if not getattr(mod, "HANG_WATCHDOG", False):
        return mod.run_case(case, keep_log=keep_log) if keep_log else mod.run_case(case)

    fired = []

    def on_alarm(signum, frame):
        fired.append(1)
        raise RunHang()

    old = signal.signal(signal.SIGALRM, on_alarm)
    signal.setitimer(signal.ITIMER_REAL, HANG_S)
    try:
        return mod.run_case(case, keep_log=keep_log) if keep_log else mod.run_case(case)
    except BaseException as e:  # noqa: BLE001
        # (an event loop may wrap or replace the RunHang raised inside it: what counts is that the alarm fired)
        if not fired and not isinstance(e, RunHang):
            raise
        from .core import RunResult

        res = RunResult()
        res.violation = (f"{mod.PROP}:hang", f"one run did not finish within {HANG_S} s of wall time (the code under test loops or blocks; a run normally takes milliseconds)")
        res.digest = "hang"
        res.nontrivial = True
        return res
    finally:
        signal.setitimer(signal.ITIMER_REAL, 0)
        signal.signal(signal.SIGALRM, old)


def _run_chunk(args):
    prop, tier, verif_seed, indices, deadline, det_every = args
    mod = _setup(prop)
    faulthandler.dump_traceback_later(600, exit=True)
    out = {
        "evaluations": 0,
        "skipped": 0,
        "digests": set(),
        "faults": Counter(),
        "probes": Counter(),
        "states": set(),
        "sim_seconds": 0.0,
        "steps": 0,
        "violations": [],
        "anomalies": [],
        "samples": [],
        "det_pairs": 0,
        "det_fail": [],
        "nontrivial_runs": 0,
    }
    try:
        for i in indices:
            if time.time() > deadline:
                out["skipped"] += 1
                continue
            seed = run_seed(verif_seed, prop, tier, i)
            case = mod.gen_case(seed, tier)
            try:
                res = run_guarded(mod, case)
            except Exception as e:  # noqa: BLE001 - a harness bug, never a VIOLATION
                tb = traceback.format_exc().strip().splitlines()
                out["anomalies"].append((i, seed, f"harness-exception {type(e).__name__}: {e} @ {tb[-3:-1]}"))
                continue
            out["evaluations"] += 1
            out["faults"].merge(res.faults)
            out["probes"].merge(res.probes)
            out["sim_seconds"] += res.sim_seconds
            out["steps"] += res.steps
            if len(out["states"]) < 200000:
                out["states"] |= res.states
            if res.nontrivial:
                out["nontrivial_runs"] += 1
                out["digests"].add(res.digest)
            if res.anomaly:
                out["anomalies"].append((i, seed, res.anomaly))
            if res.violation is not None:
                if len(out["violations"]) < 40:
                    out["violations"].append(
                        {
                            "index": i,
                            "seed": seed,
                            "cls": res.violation[0],
                            "detail": res.violation[1],
                            "case": case,
                            "trace": res.trace,
                            "digest": res.digest,
                        }
                    )
            if len(out["samples"]) < 1 and res.nontrivial:
                out["samples"].append(
                    {
                        "index": i,
                        "seed": seed,
                        "case": _compact(case),
                        "digest": res.digest,
                        "steps": res.steps,
                        "outcome": res.violation[0] if res.violation else "ok",
                        **({"summary": res.extra["summary"]} if "summary" in res.extra else {}),
                    }
                )
            if det_every and i % det_every == 0:
                res2 = mod.run_case(mod.gen_case(seed, tier))
                out["det_pairs"] += 1
                if res2.digest != res.digest:
                    out["det_fail"].append((i, seed, res.digest, res2.digest))
    finally:
        faulthandler.cancel_dump_traceback_later()
    return out


# ---------------------------------------------------------------------------


def explicit_case(mod, v):
    """Turn a failing generated case into an explicit replayable one."""
    case = copy.deepcopy(v["case"])
    if hasattr(mod, "make_explicit"):
        case = mod.make_explicit(case, v["trace"])
    elif v.get("trace") and "schedule" in v["trace"] and "schedule" in case:
        case["schedule"] = v["trace"]["schedule"]
    return case


def minimise(mod, case, cls, budget_s=25.0, max_tries=3000):
    """Greedy delta debugging: keep any simpler candidate that still fails with
    the same violation class."""
    if cls.endswith(":hang"):
        return case, 0  # (every candidate would cost the watchdog's full wait)
    t0 = time.time()
    tries = 0
    best = case
    improved = True
    while improved and time.time() - t0 < budget_s and tries < max_tries:
        improved = False
        for cand in mod.shrink(best):
            tries += 1
            if time.time() - t0 > budget_s or tries >= max_tries:
                break
            try:
                r = mod.run_case(copy.deepcopy(cand))
            except Exception:  # noqa: BLE001 - an invalid candidate is just not kept
                continue
            if r.violation is not None and r.violation[0] == cls:
                if r.trace and "schedule" in r.trace and cand.get("schedule") is not None:
                    # keep only the decisions that were actually used
                    cand = copy.deepcopy(cand)
                    cand["schedule"] = r.trace["schedule"]
                best = cand
                improved = True
                break
    return best, tries


def load_known():
    p = os.path.join(VERIF_DIR, "known_findings.json")
    if not os.path.exists(p):
        return []
    with open(p) as f:
        return json.load(f).get("findings", [])


def replay_main(prop, path, repo):
    mod = _setup(prop)
    with open(path) as f:
        rep = json.load(f)
    res = run_guarded(mod, copy.deepcopy(rep["case"]), keep_log=True)
    for line in res.extra.get("log", [])[-60:]:
        print("  |", line)
    if res.violation is None:
        print(f"REPLAY property={prop} no violation reproduced (recorded class {rep.get('cls')})")
        return 0
    print(f"REPLAY-RESULT cls={res.violation[0]} digest={res.digest}")
    print(f"  detail: {res.violation[1]}")
    if res.violation[0] == rep.get("cls"):
        known = None
        for k in load_known():
            if k.get("property") == prop and k.get("status") == "known" and mod.known_match(k, rep["case"], res.violation):
                known = k
        if known is not None:
            print(f"KNOWN-FINDING: property={prop} {known['id']}: {known['what']}")
            return 0
        print(f"VIOLATION property={prop} replay={path}")
        return 1
    print(f"REPLAY property={prop} reproduced a different class than recorded ({rep.get('cls')})")
    return 1


def _fresh_replay(prop, path, repo):
    """Replay a file in a fresh interpreter; (cls, digest, detail) or None."""
    cmd = [sys.executable, os.path.join(VERIF_DIR, "vcheck.py"), prop, "--replay", path, "--repo", repo]
    try:
        p = subprocess.run(cmd, capture_output=True, text=True, timeout=400)
    except subprocess.TimeoutExpired:
        return None
    cls = digest = None
    detail = ""
    for line in p.stdout.splitlines():
        if line.startswith("REPLAY-RESULT cls="):
            parts = line.split()
            cls = parts[1][4:]
            digest = parts[2][7:]
        elif line.startswith("  detail: "):
            detail = line[10:]
    if cls is None:
        return None
    return cls, digest, detail


def _confirm_in_fresh_processes(prop, repo, verif_seed, v, case, path):
    """For code under test that keeps state from one run to the next inside a process (so that
    a failure seen in a worker does not repeat in-process): decide the case in fresh
    interpreters.  Two fresh replays must agree exactly; the file then records what they show."""
    rep = {
        "property": prop,
        "cls": "?",
        "detail": "",
        "seed": v["seed"],
        "verif_seed": verif_seed,
        "index": v["index"],
        "digest": "",
        "minimise_tries": 0,
        "case": case,
        "note": "not minimised: the violation depends on state the code under test keeps between runs of one process; decided by fresh-interpreter replays",
    }
    with open(path, "w") as f:
        json.dump(rep, f, indent=1, sort_keys=True, default=str)
    a = _fresh_replay(prop, path, repo)
    if a is None:
        return None
    rep["cls"], rep["digest"], rep["detail"] = a
    with open(path, "w") as f:
        json.dump(rep, f, indent=1, sort_keys=True, default=str)
    b = _fresh_replay(prop, path, repo)
    if b is None or b[:2] != a[:2]:
        return None
    return a


def check_main(prop, tier, verif_seed, repo, workers, runs=None, budget=None, start=0):
    t_start = time.time()
    mod = _setup(prop)
    cfg = mod.TIERS[tier]
    nruns = runs if runs is not None else cfg["runs"]
    budget_s = budget if budget is not None else cfg["budget_s"]
    deadline = t_start + budget_s
    print(f"VERIF_SEED={verif_seed} property={prop} tier={tier} runs<={nruns} budget_s={budget_s} workers={workers} repo={repo}")
    sys.stdout.flush()
    det_every = getattr(mod, "DET_EVERY", 50)
    chunk = max(4, min(400, nruns // (workers * 6) or 1))
    tasks = []
    for a in range(start, start + nruns, chunk):
        idx = list(range(a, min(a + chunk, start + nruns)))
        tasks.append((prop, tier, verif_seed, idx, deadline, det_every))
    agg = {
        "evaluations": 0,
        "skipped": 0,
        "digests": set(),
        "faults": Counter(),
        "probes": Counter(),
        "states": set(),
        "sim_seconds": 0.0,
        "steps": 0,
        "violations": [],
        "anomalies": [],
        "samples": [],
        "det_pairs": 0,
        "det_fail": [],
        "nontrivial_runs": 0,
    }
    harness_errors = []
    ctx = multiprocessing.get_context("fork")
    try:
        if workers <= 1:
            results = [_run_chunk(t) for t in tasks]
        else:
            with cf.ProcessPoolExecutor(max_workers=workers, mp_context=ctx) as ex:
                results = list(ex.map(_run_chunk, tasks))
    except HarnessError as e:
        print(f"HARNESS-ERROR {e}")
        return 2
    except Exception as e:  # noqa: BLE001
        traceback.print_exc()
        print(f"HARNESS-ERROR worker failure: {type(e).__name__}: {e}")
        return 2
    for r in results:  # merged in seed order: independent of worker timing
        agg["evaluations"] += r["evaluations"]
        agg["skipped"] += r["skipped"]
        agg["digests"] |= r["digests"]
        agg["faults"].merge(r["faults"])
        agg["probes"].merge(r["probes"])
        agg["states"] |= r["states"]
        agg["sim_seconds"] += r["sim_seconds"]
        agg["steps"] += r["steps"]
        agg["violations"] += r["violations"]
        agg["anomalies"] += r["anomalies"]
        if len(agg["samples"]) < 4:
            agg["samples"] += r["samples"]
        agg["det_pairs"] += r["det_pairs"]
        agg["det_fail"] += r["det_fail"]
        agg["nontrivial_runs"] += r["nontrivial_runs"]
    if agg["det_fail"]:
        harness_errors.append(f"nondeterministic runs: {agg['det_fail'][:3]}")

    # ---- violations: one report per class, earliest seed first ----------
    known = [k for k in load_known() if k.get("property") == prop]
    by_cls = {}
    for v in sorted(agg["violations"], key=lambda v: v["index"]):
        by_cls.setdefault(v["cls"], v)
    reported = []
    n_viol = 0
    os.makedirs(os.path.join(OUT_DIR, "replays"), exist_ok=True)
    fresh_reported = set()

    def fresh_fallback(cls, v, case, why):
        """returns True when the case was decided (and reported) by fresh-interpreter replays"""
        nonlocal n_viol
        path = os.path.join(OUT_DIR, "replays", f"{prop}-{v['seed']}.json")
        got = _confirm_in_fresh_processes(prop, repo, verif_seed, v, case, path)
        if got is None:
            return False
        if got[0] in fresh_reported:
            return True
        fresh_reported.add(got[0])
        fake = (got[0], got[2])
        for k in known:
            if k.get("status") == "known" and mod.known_match(k, case, fake):
                print(f"KNOWN-FINDING: property={prop} {k['id']}: {k['what']}")
                reported.append({"cls": got[0], "known": k["id"], "replay": path})
                return True
        n_viol += 1
        print(f"VIOLATION property={prop} replay={path}")
        print(f"  class={got[0]} seed={v['seed']} index={v['index']} detail={got[2]}")
        print(f"  note: {why}; decided by two agreeing fresh-interpreter replays, not minimised")
        reported.append({"cls": got[0], "known": None, "replay": path, "detail": got[2], "note": why})
        return True

    for cls, v in list(by_cls.items())[:6]:
        case = explicit_case(mod, v)
        r = run_guarded(mod, copy.deepcopy(case))
        if r.violation is None or r.violation[0] != cls:
            if fresh_fallback(cls, v, case, f"seen as {cls} in a worker but not when re-run in the same process (the code under test keeps state between runs)"):
                continue
            harness_errors.append(
                f"violation {cls} of seed {v['seed']} did not reproduce from its explicit trace (got {r.violation})"
            )
            continue
        small, tries = minimise(mod, case, cls, budget_s=getattr(mod, "MINIMISE_BUDGET_S", 25.0))
        r = run_guarded(mod, copy.deepcopy(small), keep_log=True)
        if r.violation is None or r.violation[0] != cls:
            small = case
            r = run_guarded(mod, copy.deepcopy(small), keep_log=True)
        if r.violation is None or r.violation[0] != cls:
            if fresh_fallback(cls, v, case, f"{cls} reproduced once but not again in the same process"):
                continue
            harness_errors.append(f"violation {cls} of seed {v['seed']} reproduced once but not again in the same process (state leaks between runs?)")
            continue
        path = os.path.join(OUT_DIR, "replays", f"{prop}-{v['seed']}.json")
        rep = {
            "property": prop,
            "cls": cls,
            "detail": r.violation[1],
            "seed": v["seed"],
            "verif_seed": verif_seed,
            "index": v["index"],
            "digest": r.digest,
            "minimise_tries": tries,
            "case": small,
            "log_tail": r.extra.get("log", [])[-40:],
        }
        with open(path, "w") as f:
            json.dump(rep, f, indent=1, sort_keys=True, default=str)
        # replay in a fresh interpreter: must fail the same way
        cmd = [sys.executable, os.path.join(VERIF_DIR, "vcheck.py"), prop, "--replay", path, "--repo", repo]
        try:
            p = subprocess.run(cmd, capture_output=True, text=True, timeout=400)
            ok = f"REPLAY-RESULT cls={cls} digest={r.digest}" in p.stdout
        except subprocess.TimeoutExpired:
            ok = False
        if not ok:
            if fresh_fallback(cls, v, case, f"{cls} in this process, something else in a fresh interpreter"):
                continue
            harness_errors.append(f"nondeterministic-replay {cls} {path}")
            continue
        match = None
        for k in known:
            if k.get("status") == "known" and mod.known_match(k, small, r.violation):
                match = k
                break
        if match is not None:
            print(f"KNOWN-FINDING: property={prop} {match['id']}: {match['what']}")
            reported.append({"cls": cls, "known": match["id"], "replay": path})
        else:
            n_viol += 1
            print(f"VIOLATION property={prop} replay={path}")
            print(f"  class={cls} seed={v['seed']} index={v['index']} detail={r.violation[1]}")
            reported.append({"cls": cls, "known": None, "replay": path, "detail": r.violation[1]})
    wall = time.time() - t_start
    ev = agg["evaluations"]
    probes_zero = [p for p in getattr(mod, "EXPECTED_PROBES", []) if agg["probes"].get(p, 0) == 0]
    evidence = {
        "property_id": prop,
        "tier": tier,
        "seed": verif_seed,
        "level": getattr(mod, "LEVEL", "exploration"),
        "coverage": {
            "evaluations": ev,
            "distinct_nontrivial": len(agg["digests"]),
            "rule": mod.RULE,
            "samples": agg["samples"][:4],
            "nontrivial_runs": agg["nontrivial_runs"],
            "runs_per_hour": int(ev / wall * 3600) if wall > 0 else 0,
            "seeds": {"verif_seed": verif_seed, "run_indices": [start, start + nruns - 1], "runs_not_executed_budget": agg["skipped"]},
            "simulated_seconds": round(agg["sim_seconds"], 3),
            "scheduler_steps": agg["steps"],
            "fault_counts": dict(sorted(agg["faults"].items())),
            "probes": dict(sorted(agg["probes"].items())),
            "probes_at_zero": probes_zero,
            "distinct_states": len(agg["states"]),
            "distinct_states_measure": getattr(mod, "STATE_MEASURE", ""),
            "components_real": mod.COMPONENTS_REAL,
            "components_stub": mod.COMPONENTS_STUB,
            "determinism_pairs_checked": agg["det_pairs"],
            "anomalies": [list(a) for a in agg["anomalies"][:20]],
            "anomaly_count": len(agg["anomalies"]),
            "violation_classes": {c: sum(1 for v in agg["violations"] if v["cls"] == c) for c in by_cls},
            "reported": reported,
            "workers": workers,
        },
        "assumptions": getattr(mod, "ASSUMPTIONS", [])
        + [
            "sampling, not enumeration: a clean batch is evidence over the runs counted here",
            "the simulator (simkit) and the reference model/oracles of this check are trusted",
        ],
        "wall_s": round(wall, 2),
        "violations": n_viol,
    }
    os.makedirs(os.path.join(OUT_DIR, "evidence"), exist_ok=True)
    with open(os.path.join(OUT_DIR, "evidence", f"{prop}.json"), "w") as f:
        json.dump(evidence, f, indent=1, sort_keys=True, default=str)
    print(
        f"SUMMARY property={prop} runs={ev} nontrivial={agg['nontrivial_runs']} distinct={len(agg['digests'])} "
        f"states={len(agg['states'])} steps={agg['steps']} sim_s={agg['sim_seconds']:.1f} "
        f"runs_per_hour={evidence['coverage']['runs_per_hour']} det_pairs={agg['det_pairs']} "
        f"skipped={agg['skipped']} anomalies={len(agg['anomalies'])} wall_s={wall:.1f}"
    )
    print("  faults:", dict(sorted(agg["faults"].items())))
    print("  probes:", dict(sorted(agg["probes"].items())))
    if probes_zero:
        print("  WARNING probes at zero:", probes_zero)
    if harness_errors:
        for h in harness_errors:
            print("HARNESS-ERROR", h)
        if n_viol == 0:
            return 2
    if agg["anomalies"] and n_viol == 0 and getattr(mod, "ANOMALY_IS_ERROR", True):
        print("HARNESS-ERROR anomalies:", agg["anomalies"][:3])
        return 2
    if ev == 0:
        print("HARNESS-ERROR no runs executed")
        return 2
    return 1 if n_viol else 0
