"""simkit.refzone -- a small executable reference model of zone content and of the
documented semantics of write transactions (dns.transaction docs + RFC 1982).

Content is  {absolute owner name -> {(rdtype, covers) -> [ttl, set(rdata ids)]}}.
Owner names are canonical absolute dns.name.Name values (used only as hashable,
case-insensitive keys); an rdata id is the rdata's canonical digestable form, so
the model never looks inside records.  Everything the model needs to know about
a type is given in TYPEINFO below (written from the documentation of
dns.node.Node and dns.rdatatype.is_singleton, not imported from the code).
"""

MAX_TTL = 2**32 - 1  # dns.ttl.MAX_TTL as documented

# rdtype numbers
A, NS, CNAME, SOA, MX, TXT, KEY, AAAA, NXT, DNAME, RRSIG, NSEC, NSEC3 = (
    1, 2, 5, 6, 15, 16, 25, 28, 30, 39, 46, 47, 50,
)
SINGLETONS = {SOA, NXT, DNAME, NSEC, CNAME}
NEUTRAL = {NSEC, NSEC3, KEY}
CNAMEISH = {CNAME}


def kind(rdtype, covers):
    """'cname' | 'neutral' | 'regular' per the dns.node.Node documentation."""
    if rdtype in CNAMEISH or (rdtype == RRSIG and covers in CNAMEISH):
        return "cname"
    if rdtype in NEUTRAL or (rdtype == RRSIG and covers in NEUTRAL):
        return "neutral"
    return "regular"


def serial_add(old, inc):
    """RFC 1982 addition on 32 bits; increments above 2**31-1 are undefined."""
    if inc > 2**31 - 1:
        raise ValueError("increment too large")
    return (old + inc) % 2**32


class ModelError(Exception):
    def __init__(self, name):
        super().__init__(name)
        self.name = name


class RefZone:
    def __init__(self, origin, content=None):
        self.origin = origin  # absolute name (hashable key)
        self.content = {} if content is None else content

    def copy(self):
        return RefZone(
            self.origin,
            {
                n: {k: [v[0], set(v[1])] for k, v in rds.items()}
                for n, rds in self.content.items()
            },
        )

    def snapshot(self):
        """Hashable, comparable form."""
        return frozenset(
            (n, k, v[0], frozenset(v[1]))
            for n, rds in self.content.items()
            for k, v in rds.items()
        )

    # --- reads -----------------------------------------------------------
    def get(self, name, rdtype, covers=0):
        node = self.content.get(name)
        if node is None:
            return None
        v = node.get((rdtype, covers))
        if v is None:
            return None
        return (v[0], frozenset(v[1]))

    def name_exists(self, name):
        return name in self.content

    # --- primitive stores ----------------------------------------------------
    def _put(self, name, rdtype, covers, ttl, rdatas):
        node = self.content.setdefault(name, {})
        k = kind(rdtype, covers)
        if k == "cname":
            for key in [x for x in node if kind(*x) == "regular"]:
                del node[key]
        elif k == "regular":
            for key in [x for x in node if kind(*x) == "cname"]:
                del node[key]
        node[(rdtype, covers)] = [ttl, set(rdatas)]

    def _del_rdataset(self, name, rdtype, covers):
        node = self.content.get(name)
        if node is None:
            return
        node.pop((rdtype, covers), None)
        if not node:
            del self.content[name]

    # --- transaction operations ------------------------------------------
    def add(self, name, rdtype, covers, ttl, rdatas, replace=False):
        """rdatas: list in the order given (order matters for singletons)."""
        if rdtype == SOA and name != self.origin:
            raise ModelError("ValueError")
        rdatas = list(rdatas)
        if rdtype in SINGLETONS and len(rdatas) > 1:
            rdatas = rdatas[-1:]
        if not replace:
            ex = self.get(name, rdtype, covers)
            if ex is not None:
                ttl = min(ttl, ex[0])
                if rdtype in SINGLETONS:
                    pass  # the newest record wins
                else:
                    rdatas = list(ex[1]) + [r for r in rdatas if r not in ex[1]]
        self._put(name, rdtype, covers, ttl, rdatas)

    def delete_name(self, name, exact=False):
        if exact and name not in self.content:
            raise ModelError("DeleteNotExact")
        self.content.pop(name, None)

    def delete_rdataset(self, name, rdtype, covers, exact=False):
        if self.get(name, rdtype, covers) is None:
            if exact:
                raise ModelError("DeleteNotExact")
            return
        self._del_rdataset(name, rdtype, covers)

    def delete_rdatas(self, name, rdtype, covers, rdatas, exact=False):
        ex = self.get(name, rdtype, covers)
        if ex is None:
            if exact:
                raise ModelError("DeleteNotExact")
            return
        rdatas = set(rdatas)
        if exact and not rdatas <= ex[1]:
            raise ModelError("DeleteNotExact")
        rest = ex[1] - rdatas
        if rest:
            self._put(name, rdtype, covers, ex[0], rest)
        else:
            self._del_rdataset(name, rdtype, covers)

    def soa_serial_update(self, name, value, relative, get_serial, with_serial):
        """get_serial(rdata id) -> int ; with_serial(rdata id, int) -> rdata id."""
        if value < 0:
            raise ModelError("ValueError")
        ex = self.get(name, SOA, 0)
        if ex is None or len(ex[1]) == 0:
            raise ModelError("KeyError")
        (rid,) = tuple(ex[1])
        if relative:
            try:
                new = serial_add(get_serial(rid), value)
            except ValueError:
                raise ModelError("ValueError")
        else:
            new = value % 2**32
        if new == 0:
            new = 1
        self.add(name, SOA, 0, ex[0], [with_serial(rid, new)], replace=True)
