"""simkit.selftest -- determinism self-test of every engine.

For each property: the digests of runs 0..N-1 are computed
  (a) in this process, twice (same process, same order),
  (b) in a fresh interpreter in *reverse* order (state leaking from one run into the next,
      or anything depending on how runs are distributed over workers, shows as a difference),
  (c) in a fresh interpreter under another PYTHONHASHSEED,
and all four lists must be equal.
"""

import json
import os
import subprocess
import sys

from .core import run_seed

HERE = os.path.dirname(os.path.dirname(os.path.abspath(__file__)))


def digests(prop, verif_seed, n, reverse=False, start=0):
    from . import runner

    mod = runner._setup(prop)
    out = {}
    order = list(range(start, start + n))
    if reverse:
        order.reverse()
    for i in order:
        seed = run_seed(verif_seed, prop, "quick", i)
        case = mod.gen_case(seed, "quick")
        r = mod.run_case(case)
        out[i] = (r.digest, r.violation[0] if r.violation else None)
    return [out[i] for i in range(start, start + n)]


def _sub(prop, repo, verif_seed, n, hashseed, reverse):
    cmd = [sys.executable, os.path.join(HERE, "vcheck.py"), prop, "--digests", str(n), "--hashseed", str(hashseed), "--repo", repo]
    if reverse:
        cmd.append("--reverse")
    env = dict(os.environ)
    env["VERIF_SEED"] = str(verif_seed)
    p = subprocess.run(cmd, capture_output=True, text=True, env=env, timeout=1800)
    for line in p.stdout.splitlines():
        if line.startswith("DIGESTS "):
            return [tuple(x) for x in json.loads(line[8:])]
    raise RuntimeError(f"no digests from subprocess: {p.stdout[-400:]} {p.stderr[-400:]}")


def main(props, repo, verif_seed, n=200):
    bad = 0
    for prop in props:
        prop = prop.upper()
        # each property in its own interpreter (seam patches of different checks must not mix)
        a = _sub(prop, repo, verif_seed, n, 0, False)
        b = _sub(prop, repo, verif_seed, n, 0, True)
        c = _sub(prop, repo, verif_seed, n, 12345, False)
        d = _sub(prop, repo, verif_seed, n, 0, False)
        ok = a == b == c == d
        diff = [i for i in range(n) if not (a[i] == b[i] == c[i] == d[i])]
        print(f"{'OK  ' if ok else 'FAIL'} {prop}: {n} runs x (forward, reverse order, PYTHONHASHSEED=12345, forward again); distinct digests {len(set(x[0] for x in a))}; differing indices {diff[:10]}")
        if not ok:
            bad += 1
            for i in diff[:3]:
                print("    ", i, a[i], b[i], c[i], d[i])
        sys.stdout.flush()
    return 1 if bad else 0
