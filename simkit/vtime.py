"""simkit.vtime -- the virtual clock and discrete-event queue.

A VirtualTime object stands in for the `time` module inside the dnspython
modules under test (`dns.resolver.time = VT`, ...).  Everything that is a
deadline, expiry, back-off or timestamp therefore reads simulated time.
"""

import heapq
import time as _real_time


class VirtualTime:
    def __init__(self, start=1_700_000_000.0):
        self.now = float(start)
        self.start = float(start)
        self._q = []
        self._seq = 0
        self.sleep_hook = None  # called as sleep_hook(seconds) instead of jumping
        self.sleeps = []
        self.tick = 0.0  # simulated CPU cost: every clock read advances time by this much

    # ---- the `time` module surface used by dnspython ----
    def time(self):
        t = self.now
        if self.tick:
            self.now = t + self.tick
        return t

    def monotonic(self):
        return self.now

    def sleep(self, seconds):
        self.sleeps.append(seconds)
        if self.sleep_hook is not None:
            self.sleep_hook(seconds)
        else:
            self.advance(max(0.0, seconds))

    def __getattr__(self, name):
        # strftime, gmtime, ... are pure functions: pass through
        return getattr(_real_time, name)

    # ---- simulator side ----
    def reset(self, start):
        self.now = float(start)
        self.start = float(start)
        self._q = []
        self._seq = 0
        self.sleeps = []
        self.sleep_hook = None
        self.tick = 0.0

    def elapsed(self):
        return self.now - self.start

    def call_at(self, when, fn):
        self._seq += 1
        heapq.heappush(self._q, (when, self._seq, fn))

    def call_later(self, delay, fn):
        self.call_at(self.now + delay, fn)

    def next_event_time(self):
        return self._q[0][0] if self._q else None

    def run_next(self):
        """Pop and run the earliest event, moving the clock to it."""
        when, _, fn = heapq.heappop(self._q)
        if when > self.now:
            self.now = when
        fn()

    def advance(self, dt):
        """Advance the clock by dt, running every event that falls due."""
        target = self.now + dt
        while self._q and self._q[0][0] <= target:
            self.run_next()
        if target > self.now:
            self.now = target

    def jump(self, dt):
        """Clock fault: move the clock without running events (may be negative)."""
        self.now += dt


class OffsetView:
    """A `time` module stand-in that reads the shared virtual clock plus an epoch offset.
    Lets a party live at a large absolute time (TSIG time signed) while the simulation
    clock itself stays small enough for exact float arithmetic."""

    def __init__(self, vt, offset=0.0):
        self.vt = vt
        self.offset = offset

    def time(self):
        return self.vt.now + self.offset

    def monotonic(self):
        return self.vt.now

    def sleep(self, seconds):
        self.vt.sleep(seconds)

    def __getattr__(self, name):
        return getattr(_real_time, name)


VT = VirtualTime()
