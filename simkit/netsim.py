"""simkit.netsim -- simulated sockets, transports and an asyncio loop on virtual time.

Sync world:  `dns.query.socket_factory` returns FakeSocket objects (subclass of
socket.socket without a file descriptor); `dns.query._wait_for` is rebound to
`pump`, which pops events from the virtual clock until the socket is ready or the
expiration passes (-> dns.exception.Timeout at exactly the simulated expiration).

Async world: `VirtualLoop` (asyncio.BaseEventLoop subclass) whose selector jumps the
virtual clock to the next timer; `create_datagram_endpoint` / `create_connection`
hand out simulated transports, so the real dns._asyncio_backend, asyncio streams
and asyncio.wait_for run unmodified.

Both worlds are driven by the same *script* objects (UdpScript / TcpScript), which
is what lets checks compare sync and async decision by decision.
"""

import asyncio
import errno
import socket

from .core import HarnessError
from .vtime import VT


class SimDeadlock(Exception):
    """Nothing can ever happen again: waiting without deadline and no events."""


class SimBusyWait(Exception):
    """The code under test polls a ready socket again and again without consuming
    anything and without simulated time advancing (it would spin on a real CPU)."""


_SPIN = {"t": None, "n": 0}
SPIN_LIMIT = 300000


# ---------------------------------------------------------------------------
# scripts


class UdpScript:
    """What the network does after the client sent its datagram.

    deliveries: list of (delay_after_send, payload, source) where payload is bytes or
    an exception instance (ICMP-style error) and source is an (addr, port[, ...]) tuple.
    """

    def __init__(self, deliveries):
        self.deliveries = list(deliveries)
        self.sent = []  # (time, data, destination)


class TcpScript:
    """Peer behaviour on one connection.

    connect: ("ok", delay) | ("refused", delay) | ("hang",)
    rx: list of (delay_after_connect, chunk) in arrival order; chunk is bytes, "EOF" or "RESET"
    tx_accept: list of ints: how many bytes each successive send() may take (0 = would block,
               becomes writable again after tx_gap seconds); when exhausted everything is taken.
    max_recv: list of ints capping what successive recv() calls return (sync world only)
    """

    def __init__(self, connect=("ok", 0.0), rx=(), tx_accept=(), tx_gap=0.01, max_recv=(), rx_after_request=False):
        self.connect = connect
        self.rx = list(rx)
        self.tx_accept = list(tx_accept)
        self.tx_gap = tx_gap
        self.max_recv = list(max_recv)
        self.rx_after_request = rx_after_request
        self.received = bytearray()  # what the peer got from the client
        self.client_closed = False


class Network:
    """Maps (address, port) destinations to scripts; one per exchange."""

    def __init__(self):
        self.udp_scripts = {}
        self.tcp_scripts = {}
        self.sockets = []
        self.log = None

    def udp_for(self, dest):
        return self.udp_scripts.get(_key(dest)) or self.udp_scripts.get("*")

    def tcp_for(self, dest):
        return self.tcp_scripts.get(_key(dest)) or self.tcp_scripts.get("*")


def _key(dest):
    if dest is None:
        return None
    return (dest[0], dest[1])


NET = Network()


def reset_network():
    global NET
    NET = Network()
    return NET


# ---------------------------------------------------------------------------
# sync world


class FakeSocket(socket.socket):
    """A socket.socket without a descriptor (isinstance checks in dns.query hold)."""

    def __init__(self, family, kind, proto=0, net=None):  # pylint: disable=super-init-not-called
        self._family = family
        self._kind = kind
        self.net = net or NET
        self.inq = []  # datagrams: (payload, source) ; stream: bytes chunks
        self.rbuf = bytearray()
        self.eof = False
        self.reset = False
        self.closed = False
        self.bound = None
        self.peer = None
        self.script = None
        self.connected = False
        self.connect_error = 0
        self.writable_at = 0.0
        self.tx_i = 0
        self.rx_i = 0
        self.blocking = True
        self.recv_calls = 0
        self.net.sockets.append(self)

    family = property(lambda self: self._family)
    type = property(lambda self: self._kind)
    proto = property(lambda self: 0)

    def __enter__(self):
        return self

    def __exit__(self, *a):
        self.close()
        return False

    def __repr__(self):
        return f"<FakeSocket {self._kind!r}>"

    def fileno(self):
        return -1

    def close(self):
        self.closed = True
        if self.script is not None and isinstance(self.script, TcpScript):
            self.script.client_closed = True

    def setblocking(self, flag):
        self.blocking = flag

    def settimeout(self, t):
        pass

    def setsockopt(self, *a):
        pass

    def bind(self, addr):
        self.bound = addr

    def getsockname(self):
        return self.bound or (("0.0.0.0" if self._family == socket.AF_INET else "::"), 40000)

    def getpeername(self):
        if not self.connected:
            raise OSError(errno.ENOTCONN, "not connected")
        return self.peer

    def getsockopt(self, level, opt, *a):
        if opt == socket.SO_ERROR:
            return self.connect_error
        return 0

    # ---- readiness as seen by the pump ----
    def readable(self):
        if self._kind == socket.SOCK_DGRAM:
            return bool(self.inq)
        return bool(self.rbuf) or self.eof or self.reset

    def writable(self):
        if self._kind == socket.SOCK_STREAM and not self.connected and self.connect_error == 0 and self.script is not None:
            return False
        return VT.now >= self.writable_at

    # ---- datagram ----
    def sendto(self, data, dest):
        script = self.net.udp_for(dest)
        if script is None:
            raise HarnessError(f"no UDP script for {dest}")
        self.script = script
        script.sent.append((VT.now, bytes(data), dest))
        t0 = VT.now
        for delay, payload, source in script.deliveries:
            VT.call_at(t0 + delay, lambda p=payload, s=source: self.inq.append((p, s)))
        return len(data)

    def recvfrom(self, n):
        if self.closed:
            raise OSError(errno.EBADF, "closed")
        if not self.inq:
            raise BlockingIOError(errno.EWOULDBLOCK, "would block")
        payload, source = self.inq.pop(0)
        if isinstance(payload, BaseException):
            raise payload
        return (payload[:n], source)

    # ---- stream ----
    def connect_ex(self, dest):
        if self._kind == socket.SOCK_DGRAM:
            self.peer = dest
            self.connected = True
            return 0
        script = self.net.tcp_for(dest)
        if script is None:
            raise HarnessError(f"no TCP script for {dest}")
        self.script = script
        self.peer = dest
        kind = script.connect[0]
        if kind == "ok" and script.connect[1] == 0:
            self._established()
            return 0
        if kind == "refused" and script.connect[1] == 0:
            return errno.ECONNREFUSED
        if kind == "ok":
            VT.call_later(script.connect[1], self._established)
        elif kind == "refused":
            VT.call_later(script.connect[1], lambda: self._connect_failed(errno.ECONNREFUSED))
        return errno.EINPROGRESS

    def attach(self, script, peer=("10.0.0.1", 53)):
        """Use as an already-connected socket (the public sock= parameter)."""
        self.script = script
        self.peer = peer
        self._established()

    def _established(self):
        self.connected = True
        t0 = VT.now
        if not self.script.rx_after_request:
            self._schedule_rx(t0)

    def _schedule_rx(self, t0):
        for delay, chunk in self.script.rx:
            VT.call_at(t0 + delay, lambda c=chunk: self._arrive(c))

    def _arrive(self, chunk):
        if chunk == "EOF":
            self.eof = True
        elif chunk == "RESET":
            self.reset = True
        else:
            self.rbuf += chunk

    def _connect_failed(self, err):
        self.connect_error = err
        self.writable_at = 0.0

    def send(self, data):
        if self.closed:
            raise OSError(errno.EBADF, "closed")
        if self._kind == socket.SOCK_DGRAM:
            if self.peer is None:
                raise OSError(errno.EDESTADDRREQ, "Destination address required")
            return self.sendto(data, self.peer)
        if not self.connected:
            raise OSError(errno.ENOTCONN, "not connected")
        if VT.now < self.writable_at:
            raise BlockingIOError(errno.EWOULDBLOCK, "would block")
        s = self.script
        if self.tx_i < len(s.tx_accept):
            k = s.tx_accept[self.tx_i]
            self.tx_i += 1
            if k == 0:
                self.writable_at = VT.now + s.tx_gap
                # make sure the clock has an event to reach that time
                VT.call_at(self.writable_at, lambda: None)
                raise BlockingIOError(errno.EWOULDBLOCK, "would block")
            k = min(k, len(data))
        else:
            k = len(data)
        first = len(s.received) == 0
        s.received += data[:k]
        if s.rx_after_request and first:
            self._schedule_rx(VT.now)
        return k

    def recv(self, n):
        if self.closed:
            raise OSError(errno.EBADF, "closed")
        self.recv_calls += 1
        if self.rbuf:
            s = self.script
            cap = n
            if s is not None and self.rx_i < len(s.max_recv):
                cap = max(1, min(n, s.max_recv[self.rx_i]))
                self.rx_i += 1
            out = bytes(self.rbuf[:cap])
            del self.rbuf[:cap]
            return out
        if self.reset:
            raise ConnectionResetError(errno.ECONNRESET, "reset")
        if self.eof:
            return b""
        raise BlockingIOError(errno.EWOULDBLOCK, "would block")


def fake_socket_factory(af, kind, proto=0):
    return FakeSocket(af, kind, proto)


def pump(fd, readable, writable, _, expiration):
    """Replacement for dns.query._wait_for on virtual time."""
    import dns.exception

    if _SPIN["t"] == VT.now:
        _SPIN["n"] += 1
        if _SPIN["n"] > 5000:
            _SPIN["n"] = 0
            raise SimBusyWait("waited 5000 times at the same simulated instant")
    else:
        _SPIN["t"] = VT.now
        _SPIN["n"] = 0
    while True:
        if readable and fd.readable():
            return
        if writable and fd.writable():
            return
        if writable and fd._kind == socket.SOCK_STREAM and fd.connect_error:
            return  # connect finished (with an error): select reports writable
        nxt = VT.next_event_time()
        if expiration is not None and (nxt is None or nxt >= expiration):
            if expiration > VT.now:
                VT.now = expiration
            raise dns.exception.Timeout
        if nxt is None:
            raise SimDeadlock("sync wait without deadline and no pending event")
        VT.run_next()


# ---------------------------------------------------------------------------
# async world


class _FakeSelector:
    def __init__(self, loop):
        self.loop = loop

    def select(self, timeout):
        if timeout is None:
            raise SimDeadlock("event loop idle forever")
        if timeout > 0:
            sched = self.loop._scheduled
            if sched and sched[0]._when > VT.now:
                VT.now = sched[0]._when  # land exactly on the next timer (no float drift)
            else:
                VT.now += timeout
        return []

    def close(self):
        pass


class VirtualLoop(asyncio.BaseEventLoop):
    def __init__(self, net=None):
        super().__init__()
        self._selector = _FakeSelector(self)
        self.net = net or NET
        self._clock_resolution = 1e-9
        self._spin_t = None
        self._spin_n = 0

    def time(self):
        # called once per loop iteration: an iteration count without simulated time moving is a busy loop
        if VT.now == self._spin_t:
            self._spin_n += 1
            if self._spin_n > SPIN_LIMIT:
                self._spin_n = 0
                raise SimBusyWait(f"the event loop ran {SPIN_LIMIT} iterations at one simulated instant")
        else:
            self._spin_t = VT.now
            self._spin_n = 0
        return VT.now

    def _process_events(self, event_list):
        pass

    def _write_to_self(self):
        pass

    async def shutdown_default_executor(self, timeout=None):
        return None

    # ---- datagram endpoints ----
    async def create_datagram_endpoint(self, protocol_factory, local_addr=None, remote_addr=None, *, family=0, proto=0, flags=0, reuse_port=None, allow_broadcast=None, sock=None):
        protocol = protocol_factory()
        transport = SimDatagramTransport(self, protocol, family, local_addr, remote_addr)
        self.call_soon(protocol.connection_made, transport)
        await asyncio.sleep(0)
        return transport, protocol

    # ---- stream connections ----
    async def create_connection(self, protocol_factory, host=None, port=None, *, ssl=None, family=0, proto=0, flags=0, sock=None, local_addr=None, server_hostname=None, **kw):
        script = self.net.tcp_for((host, port))
        if script is None:
            raise HarnessError(f"no TCP script for {(host, port)}")
        kind = script.connect[0]
        if kind == "hang":
            await self.create_future()  # never resolves; wait_for will cancel it
        delay = script.connect[1]
        if delay > 0:
            await asyncio.sleep(delay)
        if kind == "refused":
            raise ConnectionRefusedError(errno.ECONNREFUSED, "Connect call failed")
        protocol = protocol_factory()
        transport = SimStreamTransport(self, protocol, script, (host, port), family)
        self.call_soon(protocol.connection_made, transport)
        await asyncio.sleep(0)
        transport.established()
        return transport, protocol


class SimDatagramTransport(asyncio.DatagramTransport):
    def __init__(self, loop, protocol, family, local_addr, remote_addr):
        super().__init__()
        self.loop = loop
        self.protocol = protocol
        self.family = family
        self.local_addr = local_addr
        self.remote_addr = remote_addr
        self.closing = False
        self.script = None

    def get_extra_info(self, name, default=None):
        if name == "sockname":
            return self.local_addr or ("0.0.0.0", 40000)
        if name == "peername":
            return self.remote_addr
        return default

    def is_closing(self):
        return self.closing

    def close(self):
        if not self.closing:
            self.closing = True
            self.loop.call_soon(self.protocol.connection_lost, None)

    def abort(self):
        self.close()

    def sendto(self, data, addr=None):
        dest = addr or self.remote_addr
        script = self.loop.net.udp_for(dest)
        if script is None:
            raise HarnessError(f"no UDP script for {dest}")
        self.script = script
        script.sent.append((VT.now, bytes(data), dest))
        t0 = VT.now
        for delay, payload, source in script.deliveries:
            self.loop.call_at(t0 + delay, self._deliver, payload, source)

    def _deliver(self, payload, source):
        if self.closing:
            return
        if isinstance(payload, BaseException):
            self.protocol.error_received(payload)
        else:
            self.protocol.datagram_received(payload, source)


class SimStreamTransport(asyncio.Transport):
    def __init__(self, loop, protocol, script, peer, family):
        super().__init__()
        self.loop = loop
        self.protocol = protocol
        self.script = script
        self.peer = peer
        self.family = family
        self.closing = False
        self.tx_i = 0
        self.paused_writing = False
        self.pending = bytearray()
        self.rx_started = False

    def get_extra_info(self, name, default=None):
        if name == "peername":
            return self.peer
        if name == "sockname":
            return ("0.0.0.0", 40001)
        return default

    def established(self):
        if not self.script.rx_after_request:
            self._schedule_rx()

    def _schedule_rx(self):
        if self.rx_started:
            return
        self.rx_started = True
        t0 = VT.now
        for delay, chunk in self.script.rx:
            self.loop.call_at(t0 + delay, self._arrive, chunk)

    def _arrive(self, chunk):
        if self.closing:
            return
        if chunk == "EOF":
            keep = self.protocol.eof_received()
            if not keep:
                self.close()
        elif chunk == "RESET":
            self.closing = True
            self.protocol.connection_lost(ConnectionResetError(errno.ECONNRESET, "reset"))
        else:
            self.protocol.data_received(bytes(chunk))

    def is_closing(self):
        return self.closing

    def close(self):
        if not self.closing:
            self.closing = True
            self.script.client_closed = True
            self.loop.call_soon(self.protocol.connection_lost, None)

    def abort(self):
        self.close()

    def can_write_eof(self):
        return True

    def write_eof(self):
        pass

    def set_write_buffer_limits(self, high=None, low=None):
        pass

    def get_write_buffer_size(self):
        return len(self.pending)

    def pause_reading(self):
        pass

    def resume_reading(self):
        pass

    def is_reading(self):
        return True

    def write(self, data):
        self.pending += data
        self._flush()

    def _flush(self):
        s = self.script
        while self.pending:
            if self.tx_i < len(s.tx_accept):
                k = s.tx_accept[self.tx_i]
                self.tx_i += 1
                if k == 0:
                    # the kernel buffer is full: flow control until it drains
                    if not self.paused_writing:
                        self.paused_writing = True
                        self.protocol.pause_writing()
                    self.loop.call_later(s.tx_gap, self._resume)
                    return
                k = min(k, len(self.pending))
            else:
                k = len(self.pending)
            first = len(s.received) == 0
            s.received += self.pending[:k]
            del self.pending[:k]
            if s.rx_after_request and first:
                self._schedule_rx()
        if self.paused_writing:
            self.paused_writing = False
            self.protocol.resume_writing()

    def _resume(self):
        if not self.closing:
            self._flush()


def run_async(coro_fn, net=None):
    """Run coro_fn() to completion on a fresh VirtualLoop; returns (result, exception)."""
    loop = VirtualLoop(net)
    try:
        asyncio.set_event_loop(loop)
        task = loop.create_task(coro_fn(), name="sim-main")
        try:
            loop.run_until_complete(task)
            return task.result(), None
        except SimDeadlock as e:
            task.cancel()
            return None, e
        except BaseException as e:  # noqa: BLE001
            if isinstance(e, (KeyboardInterrupt, SystemExit)):
                raise
            return None, e
    finally:
        try:
            # cancel whatever is left so nothing leaks into the next run
            for t in asyncio.all_tasks(loop):
                t.cancel()
            loop._ready.clear()
            loop._scheduled.clear()
        finally:
            asyncio.set_event_loop(None)
            loop.close()


# ---------------------------------------------------------------------------
# trio world: the real dns._trio_backend and the real trio.SocketStream / cancel scopes run on a
# trio.abc.Clock that reads the virtual clock and jumps it to the next deadline when every task is
# blocked; sockets are trio.socket.SocketType subclasses driven by the same scripts.

try:  # trio is an optional dependency of dnspython; present in /venv
    import trio as _trio
    import trio.socket as _trio_socket
except Exception:  # noqa: BLE001  pragma: no cover
    _trio = None

_INF = float("inf")
TRIO_STATS = {"runs": 0, "jumps": 0}  # how often the trio world really ran / jumped its clock (read by the checks as probes)


def have_trio():
    return _trio is not None


if _trio is not None:

    class _SimTrioClock(_trio.abc.Clock):
        def __init__(self):
            self.scope = None
            self.deadlocked = False
            self.busy = False
            self.jumps = 0
            self._spin_t = None
            self._spin_n = 0

        def start_clock(self):
            pass

        def current_time(self):
            # read at least once per scheduler pass: many passes without simulated time moving is a busy loop
            if VT.now == self._spin_t:
                self._spin_n += 1
                if self._spin_n > SPIN_LIMIT and not self.busy and self.scope is not None:
                    self.busy = True
                    self.scope.cancel()
            else:
                self._spin_t = VT.now
                self._spin_n = 0
            return VT.now

        def deadline_to_sleep_time(self, deadline):
            # only called when no task is runnable: simulated time jumps to the next deadline
            if deadline == _INF:
                # nothing can ever happen again: abort the run instead of sleeping in epoll for ever
                if self.scope is not None and not self.deadlocked:
                    self.deadlocked = True
                    self.scope.cancel()
                return 0
            if deadline > VT.now:
                VT.now = deadline
                self.jumps += 1
            return 0

    class TrioFakeSocket(_trio_socket.SocketType):
        def __init__(self, family, kind, proto=0, net=None):
            super().__init__()
            self._family = family
            self._kind = kind
            self.net = net or NET
            self.arrivals = []  # (time, seq, item) in arrival order
            self.seq = 0
            self.inq = []
            self.rbuf = bytearray()
            self.eof = False
            self.reset = False
            self.closed = False
            self.bound = None
            self.peer = None
            self.script = None
            self.connected = False
            self.tx_i = 0
            self.rx_i = 0
            self.rx_started = False
            self.recv_calls = 0
            self.net.sockets.append(self)

        family = property(lambda self: self._family)
        type = property(lambda self: self._kind)
        proto = property(lambda self: 0)
        did_shutdown_SHUT_WR = property(lambda self: False)

        def shutdown(self, how):
            pass

        def is_readable(self):
            self._drain()
            return bool(self.inq or self.rbuf or self.eof or self.reset)

        async def wait_writable(self):
            await _trio.lowlevel.checkpoint()

        def __repr__(self):
            return f"<TrioFakeSocket {self._kind!r}>"

        def fileno(self):
            return -1 if self.closed else 1000

        def close(self):
            self.closed = True
            if isinstance(self.script, TcpScript):
                self.script.client_closed = True

        def __enter__(self):
            return self

        def __exit__(self, *a):
            self.close()
            return False

        def setsockopt(self, *a, **kw):
            pass

        def getsockopt(self, *a, **kw):
            return 0

        def getsockname(self):
            return self.bound or (("0.0.0.0" if self._family == socket.AF_INET else "::"), 40000)

        def getpeername(self):
            if not self.connected:
                raise OSError(errno.ENOTCONN, "not connected")
            return self.peer

        async def bind(self, addr):
            await _trio.lowlevel.checkpoint()
            self.bound = addr

        # ---- waiting ----
        def _push(self, when, item):
            self.seq += 1
            self.arrivals.append((when, self.seq, item))
            self.arrivals.sort(key=lambda a: (a[0], a[1]))

        def _drain(self):
            while self.arrivals and self.arrivals[0][0] <= VT.now:
                _, _, item = self.arrivals.pop(0)
                if self._kind == socket.SOCK_DGRAM:
                    self.inq.append(item)
                elif item == "EOF":
                    self.eof = True
                elif item == "RESET":
                    self.reset = True
                else:
                    self.rbuf += item

        async def _wait_next(self):
            if self.arrivals:
                await _trio.sleep_until(self.arrivals[0][0])
            else:
                if _trio.current_effective_deadline() == _INF:
                    raise SimDeadlock("trio socket waits without a deadline and nothing will arrive")
                await _trio.sleep_forever()

        # ---- datagram ----
        async def sendto(self, data, dest):
            await _trio.lowlevel.checkpoint_if_cancelled()
            if self.closed:
                raise OSError(errno.EBADF, "closed")
            script = self.net.udp_for(dest)
            if script is None:
                raise HarnessError(f"no UDP script for {dest}")
            self.script = script
            script.sent.append((VT.now, bytes(data), dest))
            t0 = VT.now
            for delay, payload, source in script.deliveries:
                self._push(t0 + delay, (payload, source))
            await _trio.lowlevel.cancel_shielded_checkpoint()
            return len(data)

        async def recvfrom(self, n):
            await _trio.lowlevel.checkpoint_if_cancelled()
            while True:
                if self.closed:
                    raise OSError(errno.EBADF, "closed")
                self._drain()
                if self.inq:
                    payload, source = self.inq.pop(0)
                    await _trio.lowlevel.cancel_shielded_checkpoint()
                    if isinstance(payload, BaseException):
                        raise payload
                    return (payload[:n], source)
                await self._wait_next()

        # ---- stream ----
        async def connect(self, dest):
            await _trio.lowlevel.checkpoint_if_cancelled()
            if self._kind == socket.SOCK_DGRAM:
                self.peer = dest
                self.connected = True
                await _trio.lowlevel.cancel_shielded_checkpoint()
                return
            script = self.net.tcp_for(dest)
            if script is None:
                raise HarnessError(f"no TCP script for {dest}")
            self.script = script
            self.peer = dest
            kind = script.connect[0]
            if kind == "hang":
                if _trio.current_effective_deadline() == _INF:
                    raise SimDeadlock("trio connect hangs without a deadline")
                await _trio.sleep_forever()
            delay = script.connect[1]
            if delay > 0:
                await _trio.sleep(delay)
            else:
                await _trio.lowlevel.cancel_shielded_checkpoint()
            if kind == "refused":
                raise ConnectionRefusedError(errno.ECONNREFUSED, "Connection refused")
            self.connected = True
            if not script.rx_after_request:
                self._schedule_rx()

        def attach(self, script, peer=("10.0.0.1", 53)):
            self.script = script
            self.peer = peer
            self.connected = True
            if not script.rx_after_request:
                self._schedule_rx()

        def _schedule_rx(self):
            if self.rx_started:
                return
            self.rx_started = True
            t0 = VT.now
            for delay, chunk in self.script.rx:
                self._push(t0 + delay, chunk if isinstance(chunk, str) else bytes(chunk))

        async def send(self, data):
            await _trio.lowlevel.checkpoint_if_cancelled()
            if self._kind == socket.SOCK_DGRAM:
                if self.peer is None:
                    raise OSError(errno.EDESTADDRREQ, "Destination address required")
                return await self.sendto(data, self.peer)
            while True:
                if self.closed:
                    raise OSError(errno.EBADF, "closed")
                if not self.connected:
                    raise OSError(errno.ENOTCONN, "not connected")
                s = self.script
                if self.tx_i < len(s.tx_accept):
                    k = s.tx_accept[self.tx_i]
                    self.tx_i += 1
                    if k == 0:
                        await _trio.sleep(s.tx_gap)  # kernel buffer full: writable again after the gap
                        continue
                    k = min(k, len(data))
                else:
                    k = len(data)
                first = len(s.received) == 0
                s.received += bytes(data[:k])
                if s.rx_after_request and first:
                    self._schedule_rx()
                await _trio.lowlevel.cancel_shielded_checkpoint()
                return k

        async def recv(self, n):
            await _trio.lowlevel.checkpoint_if_cancelled()
            while True:
                if self.closed:
                    raise OSError(errno.EBADF, "closed")
                self.recv_calls += 1
                self._drain()
                if self.rbuf:
                    s = self.script
                    cap = n
                    if s is not None and self.rx_i < len(s.max_recv):
                        cap = max(1, min(n, s.max_recv[self.rx_i]))
                        self.rx_i += 1
                    out = bytes(self.rbuf[:cap])
                    del self.rbuf[:cap]
                    await _trio.lowlevel.cancel_shielded_checkpoint()
                    return out
                if self.reset:
                    raise ConnectionResetError(errno.ECONNRESET, "reset")
                if self.eof:
                    await _trio.lowlevel.cancel_shielded_checkpoint()
                    return b""
                await self._wait_next()

    class _Passthrough:
        def __init__(self, real, **over):
            self.__dict__["_real"] = real
            self.__dict__.update(over)

        def __getattr__(self, name):
            return getattr(self.__dict__["_real"], name)

    def trio_socket_factory(af, kind, proto=0):
        return TrioFakeSocket(af, kind, proto)

    def install_trio_seam():
        """Rebind the name `trio` inside dns._trio_backend: everything is the real trio except
        trio.socket.socket, which hands out simulated sockets."""
        import dns._trio_backend as tb

        if not isinstance(tb.trio, _Passthrough):
            tb.trio = _Passthrough(_trio, socket=_Passthrough(_trio_socket, socket=trio_socket_factory))
        return tb

    def run_trio(coro_fn, net=None):
        """Run coro_fn() under trio on simulated time; returns (result, exception)."""
        clock = _SimTrioClock()
        box = {}

        async def main():
            with _trio.CancelScope() as scope:
                clock.scope = scope
                box["r"] = await coro_fn()
                return
            # only reached when the clock cancelled the scope: every task was blocked for ever

        TRIO_STATS["runs"] += 1
        try:
            try:
                _trio.run(main, clock=clock)
            finally:
                TRIO_STATS["jumps"] += clock.jumps
        except SimDeadlock as e:
            return None, e
        except BaseException as e:  # noqa: BLE001
            if isinstance(e, (KeyboardInterrupt, SystemExit)):
                raise
            return None, e
        if clock.busy and "r" not in box:
            return None, SimBusyWait(f"the trio scheduler made {SPIN_LIMIT} passes at one simulated instant")
        if clock.deadlocked and "r" not in box:
            return None, SimDeadlock("trio run idle forever")
        return box.get("r"), None
